#!/bin/bash
# usage: trymut.sh <patch> <property> [extra gzv args] — apply a mutant to /repo, run the quick check, undo (git apply -R)
p=$1; prop=$2; shift 2
cd /repo
if ! git diff --quiet; then echo "REPO DIRTY - commit first"; exit 2; fi
git apply "$p" || { echo "PATCH DOES NOT APPLY"; exit 2; }
/verif/bin/gzv check -property $prop -no-evidence -no-replay "$@" 2>&1 | grep "^failed\|^vacuous\|^property=\|ERROR\|^VIOLATION\|^KNOWN" | cut -c1-220 | head -${MAXL:-14}
echo "exit=${PIPESTATUS[0]}"
git apply -R "$p"
git diff --quiet || echo "WARNING: repo still dirty"
