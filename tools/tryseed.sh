#!/bin/bash
# usage: tryseed.sh <seeded id> — apply a seeded change to /repo's working tree, run the quick check of its property, undo (git apply -R)
id=$1; prop=${id%%_*}
cd /repo
git apply /verif/seeded/$id/patch.diff || { echo "PATCH DOES NOT APPLY"; exit 2; }
/verif/bin/gzv check -property $prop -no-evidence ${NR--no-replay} 2>&1 | grep "^failed\|^vacuous\|^bounded-failed\|^property=\|ERROR" | cut -c1-200 | head -${MAXL:-4}
git apply -R /verif/seeded/$id/patch.diff
