#!/bin/bash
# Must-fail corpus: every sed mutant must (a) still compile, (b) make the quick check of its property exit 1.
# usage: selftest.sh [property]   — works in a scratch worktree of /repo HEAD (removed afterwards), so /repo can be edited meanwhile
export GOFLAGS=-mod=mod GOPROXY=off GOSUMDB=off GOTOOLCHAIN=local
W=${W:-/tmp/wt-selftest}
git -C /repo worktree remove --force $W 2>/dev/null; rm -rf $W
git -C /repo worktree add -q --detach $W HEAD
GZV=${GZV:-/tmp/gzv-selftest}; cp /verif/bin/gzv $GZV
cd $W
ok=0; bad=0
while IFS='|' read -r prop file expr what; do
  [[ "$prop" =~ ^#|^$ ]] && continue
  [ -n "$1" ] && [ "$1" != "$prop" ] && continue
  cp $file /tmp/selftest_orig
  sed -i -z "$expr" $file 2>/dev/null || sed -i "$expr" $file
  if cmp -s $file /tmp/selftest_orig; then echo "NOCHANGE  $prop $what"; bad=$((bad+1)); continue; fi
  if [[ $file == *.go ]] && ! go build ./$(dirname $file)/ 2>/dev/null; then echo "NOCOMPILE $prop $what"; git checkout -- $file; bad=$((bad+1)); continue; fi
  out=$($GZV check -repo $W -property $prop -no-evidence -no-replay 2>&1); rc=$?
  git checkout -- $file
  if [ $rc -eq 1 ]; then ok=$((ok+1)); echo "CAUGHT    $prop $what :: $(echo "$out" | grep '^failed' | head -1 | awk '{print $2}')"; else bad=$((bad+1)); echo "MISSED    $prop $what"; fi
done < /verif/selftest/sed_mutants.txt
# patch mutants: the original bodies of the repaired functions (and other multi-line changes); file name starts with the property id
for pf in /verif/selftest/mutants/*.patch; do
  prop=$(basename $pf | cut -c1-3); [[ $prop == F12* ]] && prop=C16
  [ -n "$1" ] && [ "$1" != "$prop" ] && continue
  git apply $pf 2>/dev/null || { echo "NOAPPLY   $prop $(basename $pf)"; bad=$((bad+1)); continue; }
  out=$($GZV check -repo $W -property $prop -no-evidence -no-replay 2>&1); rc=$?
  git checkout -- .
  if [ $rc -eq 1 ]; then ok=$((ok+1)); echo "CAUGHT    $prop $(basename $pf) :: $(echo "$out" | grep '^failed' | head -1 | awk '{print $2}')"; else bad=$((bad+1)); echo "MISSED    $prop $(basename $pf)"; fi
done
echo "selftest: caught=$ok not-caught-or-invalid=$bad"
cd /; git -C /repo worktree remove --force $W; rm -rf $W $GZV
[ $bad -eq 0 ]
