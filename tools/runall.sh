#!/bin/bash
# runs every claimed property's quick check (no evidence written unless EV=1) and prints one line each; exit 1 if any fails
cd /verif
args="-no-evidence"; [ -n "$EV" ] && args=""
rc=0
for p in $(python3 -c "import json;print(' '.join(c['property_id'] for c in json.load(open('/verif/MANIFEST.json'))['checks']))"); do
  /verif/bin/gzv check -property $p -tier quick $args > /tmp/q_$p.log 2>&1; r=$?
  [ $r -ne 0 ] && rc=1
  echo "$p rc=$r $(tail -1 /tmp/q_$p.log | cut -c1-150)"
done
exit $rc
