#!/bin/bash
# usage: rundriver.sh <pkg_dir> <file under /verif/replay> <TestName> [clock] [repo]  — runs one replay driver by overlay (for driver development)
export GOFLAGS=-mod=mod GOPROXY=off GOSUMDB=off GOTOOLCHAIN=local
R=${5:-/repo}
T=$(mktemp -d)
if [ "$4" = clock ]; then
cat > $T/clock.go <<'EOF'
package timex

import "time"

var virtualNow = time.Duration(1000) * time.Hour

func SetVirtualNow(d time.Duration) { virtualNow = d }
func Now() time.Duration            { return virtualNow }
func Since(d time.Duration) time.Duration { return virtualNow - d }
EOF
echo "{\"Replace\": {\"$R/$1/zz_gzv_replay_test.go\": \"/verif/replay/$2\", \"$R/core/timex/relativetime.go\": \"$T/clock.go\"}}" > $T/ov.json
else
echo "{\"Replace\": {\"$R/$1/zz_gzv_replay_test.go\": \"/verif/replay/$2\"}}" > $T/ov.json
fi
(cd $R && go test -overlay $T/ov.json -vet=off -count=1 -timeout 300s -run "^$3\$" -v ./$1 2>&1 | tail -${TAILN:-8})
rm -rf $T
