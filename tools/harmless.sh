#!/bin/bash
# Must-pass corpus: semantics-preserving edits (renames, reordered independent statements, comments) must NOT raise an alarm.
# Works in a scratch worktree of /repo HEAD. usage: harmless.sh
export GOFLAGS=-mod=mod GOPROXY=off GOSUMDB=off GOTOOLCHAIN=local
W=${W:-/tmp/wt-harmless}
git -C /repo worktree remove --force $W 2>/dev/null; rm -rf $W
git -C /repo worktree add -q --detach $W HEAD
cd $W
ok=0; bad=0
while IFS='|' read -r prop file expr what; do
  [[ "$prop" =~ ^#|^$ ]] && continue
  cp $file /tmp/harmless_orig
  sed -i -z "$expr" $file
  if cmp -s $file /tmp/harmless_orig; then echo "NOCHANGE  $prop $what"; bad=$((bad+1)); continue; fi
  if ! go build ./$(dirname $file)/ 2>/dev/null; then echo "NOCOMPILE $prop $what"; git checkout -- $file; bad=$((bad+1)); continue; fi
  out=$(/verif/bin/gzv check -repo $W -property $prop -no-evidence -no-replay 2>&1); rc=$?
  git checkout -- $file
  if [ $rc -eq 0 ]; then ok=$((ok+1)); echo "QUIET     $prop $what"; else bad=$((bad+1)); echo "ALARM     $prop $what :: $(echo "$out" | grep '^failed' | head -1 | awk '{print $2}')"; fi
done < /verif/selftest/harmless.txt
echo "harmless: quiet=$ok alarm-or-invalid=$bad"
cd /; git -C /repo worktree remove --force $W; rm -rf $W
[ $bad -eq 0 ]
