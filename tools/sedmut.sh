#!/bin/bash
# usage: sedmut.sh <property> <file relative to /repo> <sed expr> — ad-hoc mutant: apply, run the quick check, restore the file (git checkout -- file)
prop=$1; f=$2; e=$3
cd /repo
git diff --quiet -- $f || { echo "FILE DIRTY"; exit 2; }
sed -i -z "$e" $f
git diff --quiet -- $f && { echo NOCHANGE; exit 2; }
export GOFLAGS=-mod=mod GOPROXY=off GOSUMDB=off GOTOOLCHAIN=local
go build ./$(dirname $f)/ || { git checkout -- $f; echo NOCOMPILE; exit 2; }
/verif/bin/gzv check -property $prop -no-evidence -no-replay 2>&1 | grep "^failed\|^vacuous\|^property=\|ERROR\|^KNOWN" | cut -c1-200 | head -${MAXL:-8}
git checkout -- $f
