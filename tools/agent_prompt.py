#!/usr/bin/env python3
import json,sys
pid=sys.argv[1]
rnd=int(sys.argv[2]) if len(sys.argv)>2 else 1
avoid=sys.argv[3] if len(sys.argv)>3 else ''
a,b=(1,2) if rnd==1 else (2*rnd-1,2*rnd)
for l in open('/verif/properties.jsonl'):
    p=json.loads(l)
    if p['id']==pid: break
wt=f"/tmp/wt-{pid}"
print(f"""You are helping test a verification framework by producing realistic *property-breaking* code changes ("seeded defects") for the Go project zeromicro/go-zero. You work ONLY inside your own scratch git worktree at {wt} (a checkout of the repository). Do NOT read or write anything under /verif or /repo — stay in {wt} (and /tmp for scratch files).

PROPERTY (id {pid}): {p['title']}
STATEMENT: {p['statement']}
QUANTIFIER: {p['quantifier']['text']}
FILES THE PROPERTY IS ANCHORED IN: {', '.join(p['anchors']['files'])}

TASK: produce TWO different, independent changes to the go-zero source (not to tests) — at two different code sites or mechanisms — each of which BREAKS the property above while (a) the code still compiles, and (b) the EXISTING test suite of the touched package(s) and of packages that use them still passes. Prefer subtle changes that need something specific to manifest: a particular interleaving, a fault/crash at a particular point, a multi-step sequence of operations, an unusual input or configuration, or two cooperating sites that each look fine alone — NOT changes that ordinary use or the existing tests expose at once. Off-by-one errors in boundary arithmetic, a dropped or misplaced bookkeeping step on a rare path (error/panic/wrap-around/expiry/update-in-place), swapped order of two steps, a condition that is slightly too weak, a constant from the property statement changed — these are the flavour wanted. Each change should be small (a few lines).

{('Earlier rounds already changed these sites; pick DIFFERENT functions/mechanisms: '+avoid+chr(10)+chr(10)) if avoid else ''}For EACH change i in {{{a},{b}}} deliver, under {wt}/_out/m<i>/ :
  - patch.diff   : `git diff` of ONLY the source change (relative to the worktree HEAD; do not include _out or test files), applies with `git apply` at the repository root
  - a demonstration: a Go test file (name it demo_test.go; say in README which package directory it must be copied into, and give it a unique test function name starting with TestSeeded) that FAILS with the change applied and PASSES without it; make it deterministic (no reliance on lucky timing; if it needs concurrency, force the interleaving)
  - README.md    : which clause of the property it breaks, what is needed for it to manifest, the exact commands you ran (existing tests with the change: pass; demo with the change: fail; demo without: pass) and their results.

Rules and environment:
  - The sandbox has no network. Before every go command: export GOFLAGS=-mod=mod GOPROXY=off GOSUMDB=off GOTOOLCHAIN=local
  - Run the existing tests of every package you touch and of its direct users, with the change applied, e.g. `go test -count=1 -vet=off ./core/collection/...`; they must pass. (Do not edit or delete existing tests.)
  - Verify the demo both ways yourself (with the change: FAIL, after reverting the change with `git apply -R patch.diff`: PASS — NEVER use `git stash`: the stash is shared between all worktrees of this repository and other agents are working in parallel).
  - Leave the worktree clean of your source change at the end (`git checkout -- .` after saving patch.diff), keeping only the files under _out/.
  - Do not touch files named zz_contracts_verif.go (there are none in your worktree) and do not commit anything.
Finish with a short summary of the two changes (site, what breaks, what it needs to manifest).""")
