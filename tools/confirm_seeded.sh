#!/bin/bash
# Confirms every delivered seeded change in a scratch worktree and stores it under /verif/seeded/<id>/.
# usage: confirm_seeded.sh            (all /tmp/wt-C*/_out/m*)
export GOFLAGS=-mod=mod GOPROXY=off GOSUMDB=off GOTOOLCHAIN=local
W=/tmp/wt-confirm
git -C /repo worktree remove --force $W 2>/dev/null; rm -rf $W
git -C /repo worktree add -q --detach $W HEAD
declare -A DEMODIR=( [C01m1]=core/breaker [C01m2]=core/breaker [C14m1]=core/stores/sqlx [C14m2]=core/stores/sqlx [C18m1]=rest/handler [C18m2]=rest/handler [C17m2]=core/mapping )
for d in /tmp/wt-C*/_out/m*; do
  prop=$(echo $d | sed 's/.*wt-\(C[0-9]*\).*/\1/'); m=$(basename $d); id=${prop}_$m
  dd=${DEMODIR[$prop$m]}
  [ -f $d/DEMODIR ] && dd=$(cat $d/DEMODIR)
  grep -q "DEMODIR:" $d/README.md && dd=$(grep -o "DEMODIR: *[A-Za-z0-9_/.-]*" $d/README.md | head -1 | sed 's/DEMODIR: *//; s/\/$//')
  [ -n "$1" ] && [[ ! "$id" =~ $1 ]] && continue
  if [ -z "$dd" ]; then dd=$(grep -o -i "cop[a-z]* into \`[^\`]*\`" $d/README.md | head -1 | sed 's/.*`\(.*\)`/\1/' | sed 's/\/$//'); fi
  out=/verif/seeded/$id; mkdir -p $out
  cp $d/patch.diff $out/patch.diff; cp $d/demo_test.go $out/demo_test.go; cp $d/README.md $out/agent_README.md
  cd $W && git checkout -q -- . && git clean -fdq
  tdirs=$(grep "^+++ b/" $d/patch.diff | sed 's/+++ b\///' | xargs -n1 dirname | sort -u | sed 's/^/.\//' | tr '\n' ' ')
  cp $d/demo_test.go $W/$dd/zz_seed_demo_test.go
  r_clean=$(go test -count=1 -vet=off -timeout 300s -run TestSeeded ./$dd 2>&1 | tail -1)
  rm $W/$dd/zz_seed_demo_test.go
  if ! git apply $d/patch.diff; then echo "$id APPLY-FAIL"; continue; fi
  r_build=$(go build ./... 2>&1 | tail -1)
  r_exist=$(go test -count=1 -vet=off -timeout 600s $tdirs ./$dd 2>&1 | grep -v "^ok\|no test files" | tail -3 | tr '\n' ' ')
  cp $d/demo_test.go $W/$dd/zz_seed_demo_test.go
  r_mut=$(go test -count=1 -vet=off -timeout 300s -run TestSeeded ./$dd 2>&1 | tail -1)
  rm $W/$dd/zz_seed_demo_test.go
  git checkout -q -- .
  python3 - "$id" "$prop" "$dd" "$tdirs" "$r_clean" "$r_build" "$r_exist" "$r_mut" <<'PY'
import json,sys
id,prop,dd,tdirs,rc,rb,re_,rm=sys.argv[1:9]
ok = rc.startswith('ok') and rb=='' and re_.strip()=='' and rm.startswith('FAIL')
json.dump({"id":id,"breaks_property":prop,"demo_package_dir":dd,"touched_dirs":tdirs.split(),
 "confirmed":ok,"demo_without_change":rc,"build_with_change":rb or "ok","existing_tests_with_change":re_.strip() or "all ok","demo_with_change":rm,
 "what_i_ran":"scratch worktree of /repo HEAD: demo without the change (go test -run TestSeeded), git apply patch.diff, go build ./..., go test of the touched and demo packages without the demo, demo with the change",
 "needs_to_manifest":"see agent_README.md"}, open(f'/verif/seeded/{id}/meta.json','w'), indent=1)
print(id, "CONFIRMED" if ok else "NOT-CONFIRMED", "|", rc[:40], "|", rb[:40], "|", re_[:80], "|", rm[:40])
PY
done
cd /; git -C /repo worktree remove --force $W; rm -rf $W
