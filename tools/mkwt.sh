#!/bin/bash
# usage: mkwt.sh <id>  — creates a scratch worktree of /repo HEAD at /tmp/wt-<id> without the contract files (independent of /verif)
set -e
id=$1
d=/tmp/wt-$id
git -C /repo worktree remove --force $d 2>/dev/null || true
rm -rf $d
git -C /repo worktree add -q --detach $d HEAD
cd $d
find . -name zz_contracts_verif.go -delete
git -c user.name=scratch -c user.email=s@x commit -qam "scratch base (contract files removed)" || true
mkdir -p _out
echo $d
