package main

import (
	"fmt"
	"go/ast"
	"go/token"
	"go/types"
	"strings"

	"golang.org/x/tools/go/types/typeutil"
)

func (ev *Ev) callExpr(x *ast.CallExpr) Value {
	if ev.spec {
		return ev.specCall(x)
	}
	info := ev.info()
	// conversion?
	if tv, ok := info.Types[x.Fun]; ok && tv.IsType() {
		arg := ev.expr(x.Args[0])
		return ev.convert(arg, tv.Type, x)
	}
	callee := typeutil.Callee(info, x)
	ord, hasOrd := ev.u.callOrd[x]
	if hasOrd {
		ev.u.ghostAt(ev.st, "before "+ord, x.Pos())
	}
	var out Value
	if b, ok := callee.(*types.Builtin); ok {
		out = ev.builtin(b.Name(), x)
	} else {
		out = ev.u.call(ev, x, callee)
	}
	if hasOrd && !ev.st.dead {
		extra := map[string]Value{}
		if out.K == vTuple {
			for i, v := range out.Tuple {
				extra[fmt.Sprintf("ret%d", i)] = v
			}
		} else {
			extra["ret"] = out
			extra["ret0"] = out
		}
		ev.u.ghostAtWith(ev.st, "after "+ord, x.End(), extra)
	}
	return out
}

func (ev *Ev) convert(v Value, to types.Type, at ast.Expr) Value {
	u := ev.u
	ts := u.sortOf(to)
	if v.K == vStruct || v.K == vSlice {
		if ts == SRef {
			// []byte -> string etc.
			if v.K == vSlice {
				f := u.declareFun("bytes2str", []Sort{SRef, SInt}, SRef)
				r := app(f, v.Comp["#arr"].T, v.Comp["#len"].T)
				ev.st.assume(app("=", app("strlen", r), v.Comp["#len"].T))
				return scalar(r, SRef, to)
			}
			return ev.coerce(v, to)
		}
		n := v
		n.Typ = to
		return n
	}
	if v.K == vAddr || v.K == vFunc || v.K == vMethod {
		n := v
		n.Typ = to
		return n
	}
	if _, ok := isSliceT(to); ok {
		// string -> []byte: the bytes are a function of the string (a fresh copy each time in Go; nobody mutates these copies in the verified code)
		var arr string
		ln := "0"
		if v.S == SRef {
			arr = app(u.declareFun("str2bytes", []Sort{SRef}, SRef), v.T)
			ln = app("strlen", v.T)
		} else {
			arr = u.allocRef(ev.st, "bytes")
		}
		return u.withSet(Value{K: vSlice, Typ: to, Comp: map[string]Value{"#arr": scalar(arr, SRef, nil), "#len": intV(ln)}}, "")
	}
	switch {
	case v.S == ts:
		r := scalar(v.T, ts, to)
		if ts == SInt && u.overflow && !ev.spec {
			if lo, hi, ok := intRange(to); ok {
				u.emit(ev.st, "overflow@conv"+fmt.Sprint(u.oblCount["overflowconv"]), and(app(">=", v.T, lo), app("<=", v.T, hi)), "integer conversion in range")
				u.oblCount["overflowconv"]++
			}
		}
		if ts == SRef && v.Typ != nil {
			// string(int) etc. keep
		}
		return r
	case v.S == SInt && ts == SReal:
		return scalar(toReal(v.T), SReal, to)
	case v.S == SInt && ts == SFP:
		return scalar(fmt.Sprintf("((_ to_fp 11 53) RNE %s)", toReal(v.T)), SFP, to)
	case v.S == SReal && ts == SInt:
		return scalar(app("gotrunc", v.T), SInt, to)
	case v.S == SFP && ts == SInt:
		return scalar(app("gotrunc", app("fp.to_real", v.T)), SInt, to)
	case ts == SRef && v.S != SRef:
		if b, ok := to.Underlying().(*types.Basic); ok && b.Info()&types.IsString != 0 {
			f := u.declareFun("int2str", []Sort{SInt}, SRef)
			return scalar(app(f, v.T), SRef, to)
		}
		b := ev.box(v)
		b.Typ = to
		return b
	case v.S == SRef && ts != SRef:
		return ev.unbox(v, to)
	}
	return ev.errorf(at.Pos(), "unsupported conversion %s -> %s", v.S, to)
}

func (ev *Ev) lenOf(v Value, at ast.Expr) Value {
	u := ev.u
	switch v.K {
	case vSlice:
		return v.Comp["#len"]
	}
	if v.Typ != nil {
		switch ut := v.Typ.Underlying().(type) {
		case *types.Map:
			dom, _, card, ds, _ := ev.mapFams(ut, "", SRef)
			t := app("select", u.fam(ev.st, card, arraySort(SRef, SInt)), v.T)
			ev.st.assume(app(">=", t, "0"))
			if !ev.spec && !strings.Contains(v.T, "$") {
				// a map has no entries iff its key set is empty
				_, inner, _ := ds.isArray()
				ev.st.assume(app("=", app("=", t, "0"), app("=", app("select", u.fam(ev.st, dom, ds), v.T), fmt.Sprintf("((as const %s) false)", inner))))
			}
			return intV(t)
		case *types.Chan:
			t := app("select", u.fam(ev.st, "CH:len", arraySort(SRef, SInt)), v.T)
			u.famSort("CH:len", arraySort(SRef, SInt))
			return intV(t)
		case *types.Basic:
			return intV(app("strlen", v.T))
		}
	}
	if v.S == SRef {
		return intV(app("strlen", v.T))
	}
	pos := token.NoPos
	if at != nil {
		pos = at.Pos()
	}
	return ev.errorf(pos, "len of unsupported value")
}

func (ev *Ev) builtin(name string, x *ast.CallExpr) Value {
	u := ev.u
	switch name {
	case "len":
		return ev.lenOf(ev.expr(x.Args[0]), x)
	case "cap":
		v := ev.expr(x.Args[0])
		if v.K == vSlice {
			c := u.fresh("cap", SInt)
			ev.st.assume(app(">=", c, v.Comp["#len"].T))
			return intV(c)
		}
		if v.Typ != nil {
			if _, ok := v.Typ.Underlying().(*types.Chan); ok {
				u.famSort("CH:cap", arraySort(SRef, SInt))
				return intV(app("select", u.fam(ev.st, "CH:cap", arraySort(SRef, SInt)), v.T))
			}
		}
		return ev.errorf(x.Pos(), "cap of unsupported value")
	case "new":
		t := ev.typeOf(x.Args[0])
		ref := u.allocRef(ev.st, "new")
		z := u.zero(t)
		if _, ok := structOf(t); ok {
			walkValue(z, "", func(path string, l Value) { u.writeField(ev.st, t, path, l.S, ref, l.T) })
			u.zeroWaitGroups(ev.st, t, ref)
			u.checkTypeInvAlloc(ev, t, ref)
			u.allocT[ref] = t
		} else {
			ev.assignLV(&LValue{K: lvDeref, Ref: ref, Typ: t}, z)
		}
		return scalar(ref, SRef, types.NewPointer(t))
	case "make":
		t := ev.typeOf(x.Args[0])
		switch ut := t.Underlying().(type) {
		case *types.Slice:
			ln := ev.expr(x.Args[1])
			arr := u.allocRef(ev.st, "arr")
			// zeroed elements
			for _, lf := range u.leaves(ut.Elem()) {
				key, as := ev.elemFam(typeKey(ut.Elem()), lf.path, lf.sort)
				cur := u.fam(ev.st, key, as)
				u.setFam(ev.st, key, as, app("store", cur, arr, fmt.Sprintf("((as const (Array Int %s)) %s)", lf.sort, u.zeroOf(lf.sort))))
			}
			mv := Value{K: vSlice, Typ: t, Comp: map[string]Value{"#arr": scalar(arr, SRef, nil), "#len": intV(ln.T)}}
			if ss := u.setSortOf(ut.Elem()); ss != "" {
				es := u.sortOf(ut.Elem())
				mv = u.withSet(mv, app("ite", app(">", ln.T, "0"), app("store", u.emptySet(ss), u.zeroOf(es), "true"), u.emptySet(ss)))
			}
			return mv
		case *types.Map:
			m := u.allocRef(ev.st, "map")
			ev.initEmptyMap(ut, m)
			return scalar(m, SRef, t)
		case *types.Chan:
			ch := u.allocRef(ev.st, "chan")
			capT := "0"
			if len(x.Args) > 1 {
				capT = ev.expr(x.Args[1]).T
			}
			as := arraySort(SRef, SInt)
			u.famSort("CH:len", as)
			u.famSort("CH:cap", as)
			u.setFam(ev.st, "CH:len", as, app("store", u.fam(ev.st, "CH:len", as), ch, "0"))
			u.setFam(ev.st, "CH:cap", as, app("store", u.fam(ev.st, "CH:cap", as), ch, capT))
			return scalar(ch, SRef, t)
		}
		return ev.errorf(x.Pos(), "unsupported make")
	case "append":
		s := ev.expr(x.Args[0])
		if x.Ellipsis.IsValid() {
			// append(s, t...) : fresh result with length fact and element axioms
			tt := ev.expr(x.Args[1])
			st, _ := isSliceT(s.Typ)
			if st == nil {
				return ev.errorf(x.Pos(), "append to non-slice")
			}
			if u.isCut(s) && u.c != nil && u.c.Flags["append_in_place_ok"] {
				u.assumeNote("append to a re-sliced view in " + u.name + " is modelled as copying: the unit declares (append_in_place_ok) that the overwritten backing array is not observed afterwards")
			}
			if u.isCut(s) && !(u.c != nil && u.c.Flags["append_in_place_ok"]) {
				u.emit(ev.st, "alias/append@"+u.exprOrd(x), "false", "append to a re-sliced view writes into the shared backing array (not modelled): build the result in a slice of its own, or declare flag append_in_place_ok")
			}
			arr := u.allocRef(ev.st, "arr")
			tl := ev.lenOf(tt, x).T
			res := Value{K: vSlice, Typ: s.Typ, Comp: map[string]Value{"#arr": scalar(arr, SRef, nil), "#len": intV(app("+", s.Comp["#len"].T, tl))}}
			if ss := u.setSortOf(st.Elem()); ss != "" {
				ns := u.fresh("set", ss)
				ks, _, _ := ss.isArray()
				a, b := u.setOf(s), u.setOf(tt)
				ev.st.assume(fmt.Sprintf("(forall ((x %s)) (! (= (select %s x) (or (select %s x) (select %s x))) :pattern ((select %s x))))", ks, ns, a, b, ns))
				res = u.withSet(res, ns)
			}
			if tt.K == vSlice {
				for _, lf := range u.leaves(st.Elem()) {
					key, as := ev.elemFam(typeKey(st.Elem()), lf.path, lf.sort)
					cur := u.fam(ev.st, key, as)
					sArr, sOff := u.resolveView(s.Comp["#arr"].T, "i")
					tArr, tOff := u.resolveView(tt.Comp["#arr"].T, app("-", "i", s.Comp["#len"].T))
					ev.st.assume(fmt.Sprintf("(forall ((i Int)) (! (= (select (select %s %s) i) (ite (< i %s) (select (select %s %s) %s) (select (select %s %s) %s))) :pattern ((select (select %s %s) i))))",
						cur, arr, s.Comp["#len"].T, cur, sArr, sOff, cur, tArr, tOff, cur, arr))
				}
			}
			return res
		}
		st, _ := isSliceT(s.Typ)
		if st == nil {
			return ev.errorf(x.Pos(), "append to non-slice")
		}
		cur := s
		if u.isCut(s) && u.c != nil && u.c.Flags["append_in_place_ok"] {
			u.assumeNote("append to a re-sliced view in " + u.name + " is modelled as copying: the unit declares (append_in_place_ok) that the overwritten backing array is not observed afterwards")
		}
		if u.isCut(s) && !(u.c != nil && u.c.Flags["append_in_place_ok"]) {
			// appending to a re-sliced view (s[:k], s[i:j]) may write into the backing array the view shares with the slice
			// it was cut from; the model copies instead, so the unit is outside the verified subset unless it declares
			// (flag append_in_place_ok) that the overwritten array is not observed afterwards
			u.emit(ev.st, "alias/append@"+u.exprOrd(x), "false", "append to a re-sliced view writes into the shared backing array (not modelled): build the result in a slice of its own, or declare flag append_in_place_ok")
		}
		for ai, a := range x.Args[1:] {
			val := ev.coerce(ev.exprWithType(a, st.Elem()), st.Elem())
			if ai == 0 {
				if ord, ok := u.callOrd[x]; ok {
					u.callSiteClauses(ev, ord, nil, []Value{s, val}, nil)
				}
			}
			arr := u.allocRef(ev.st, "arr")
			walkValue(val, "", func(path string, l Value) {
				key, as := ev.elemFam(typeKey(st.Elem()), path, l.S)
				f := u.fam(ev.st, key, as)
				old := app("select", f, cur.Comp["#arr"].T)
				if bArr, bIdx := u.resolveView(cur.Comp["#arr"].T, "i"); bArr != cur.Comp["#arr"].T {
					// appending to a re-sliced view: the copied prefix is read from the base array at the view's offset
					_, es, _ := as.isArray()
					old = u.fresh("viewcopy", es)
					ev.st.assume(fmt.Sprintf("(forall ((i Int)) (! (= (select %s i) (select (select %s %s) %s)) :pattern ((select %s i))))", old, f, bArr, bIdx, old))
				}
				u.setFam(ev.st, key, as, app("store", f, arr, app("store", old, cur.Comp["#len"].T, l.T)))
			})
			nxt := Value{K: vSlice, Typ: s.Typ, Comp: map[string]Value{"#arr": scalar(arr, SRef, nil), "#len": intV(app("+", cur.Comp["#len"].T, "1"))}}
			if ss := u.setSortOf(st.Elem()); ss != "" && val.K == vScalar {
				nxt = u.withSet(nxt, app("store", u.setOf(cur), val.T, "true"))
			}
			cur = nxt
		}
		u.assumeNote("append is modelled as always copying to a fresh backing array (in-place aliasing not tracked)")
		return cur
	case "copy":
		dst := ev.expr(x.Args[0])
		src := ev.expr(x.Args[1])
		st, _ := isSliceT(dst.Typ)
		if st == nil || src.K != vSlice {
			return ev.errorf(x.Pos(), "unsupported copy")
		}
		n := app("imin", dst.Comp["#len"].T, src.Comp["#len"].T)
		dArr, dOff := u.resolveView(dst.Comp["#arr"].T, "0")
		sArr, sOff := u.resolveView(src.Comp["#arr"].T, "0")
		for _, lf := range u.leaves(st.Elem()) {
			key, as := ev.elemFam(typeKey(st.Elem()), lf.path, lf.sort)
			cur := u.fam(ev.st, key, as)
			nw := u.havocFam(ev.st, key, as)
			// all other arrays unchanged; dst elements [off, off+n) copied from the source as it was before the call, the rest kept
			ev.st.assume(fmt.Sprintf("(forall ((r Ref)) (! (=> (not (= r %s)) (= (select %s r) (select %s r))) :pattern ((select %s r))))", dArr, nw, cur, nw))
			ev.st.assume(fmt.Sprintf("(forall ((i Int)) (! (= (select (select %s %s) i) (ite (and (<= %s i) (< i (+ %s %s))) (select (select %s %s) (+ (- i %s) %s)) (select (select %s %s) i))) :pattern ((select (select %s %s) i))))",
				nw, dArr, dOff, dOff, n, cur, sArr, dOff, sOff, cur, dArr, nw, dArr))
		}
		return intV(n)
	case "delete":
		m := ev.expr(x.Args[0])
		mt := m.Typ.Underlying().(*types.Map)
		k := ev.mapKey(ev.expr(x.Args[1]), mt.Key())
		dom, _, card, ds, _ := ev.mapFams(mt, "", SRef)
		dcur := u.fam(ev.st, dom, ds)
		ccur := u.fam(ev.st, card, arraySort(SRef, SInt))
		indom := app("select", app("select", dcur, m.T), k.T)
		u.setFam(ev.st, card, arraySort(SRef, SInt), app("store", ccur, m.T, app("ite", indom, app("-", app("select", ccur, m.T), "1"), app("select", ccur, m.T))))
		u.setFam(ev.st, dom, ds, app("store", dcur, m.T, app("store", app("select", dcur, m.T), k.T, "false")))
		return Value{K: vTuple}
	case "panic":
		v := ev.expr(x.Args[0])
		b := ev.box(v)
		u.doPanic(ev.st.clone(), b.T)
		ev.st.dead = true
		ev.st.assume("false")
		return Value{K: vTuple}
	case "recover":
		st := ev.st
		if st.panicking && st.inDeferLit > 0 {
			v := st.panicVal
			st.panicking = false
			st.recovered = true
			return scalar(v, SRef, types.Universe.Lookup("any").Type())
		}
		return scalar("nil", SRef, types.Universe.Lookup("any").Type())
	case "min", "max":
		a := ev.expr(x.Args[0])
		for _, e := range x.Args[1:] {
			b := ev.expr(e)
			a, b = ev.coerceNum(a, b)
			op := "<="
			if name == "max" {
				op = ">="
			}
			a = scalar(app("ite", app(op, a.T, b.T), a.T, b.T), a.S, a.Typ)
		}
		return a
	case "close":
		ch := ev.expr(x.Args[0])
		as := arraySort(SRef, SBool)
		u.famSort("CH:closed", as)
		u.setFam(ev.st, "CH:closed", as, app("store", u.fam(ev.st, "CH:closed", as), ch.T, "true"))
		return Value{K: vTuple}
	case "print", "println":
		return Value{K: vTuple}
	}
	return ev.errorf(x.Pos(), "unsupported builtin %s", name)
}

func (u *Unit) chanRecvEffect(st *State, ch Value) {
	as := arraySort(SRef, SInt)
	u.famSort("CH:len", as)
	cur := u.fam(st, "CH:len", as)
	l := app("select", cur, ch.T)
	st.assume(app("<=", "0", l))
	u.setFam(st, "CH:len", as, app("store", cur, ch.T, app("ite", app(">", l, "0"), app("-", l, "1"), l)))
}

func (u *Unit) chanSendEffect(st *State, ch Value) {
	as := arraySort(SRef, SInt)
	u.famSort("CH:len", as)
	u.famSort("CH:cap", as)
	cur := u.fam(st, "CH:len", as)
	l := app("select", cur, ch.T)
	c := app("select", u.fam(st, "CH:cap", as), ch.T)
	// channel axiom: 0 <= len <= cap
	st.assume(and(app("<=", "0", l), app("<=", l, c)))
	// a blocking send returns only when there was room (buffered) or a receiver took the value (unbuffered: len stays 0)
	st.assume(or(app("<", l, c), app("=", c, "0")))
	u.setFam(st, "CH:len", as, app("store", cur, ch.T, app("ite", app("<", l, c), app("+", l, "1"), l)))
}

// calleeKey computes the contract key of a function object.
func calleeKey(f *types.Func) string {
	if f == nil {
		return ""
	}
	if o := f.Origin(); o != nil {
		f = o
	}
	return normGeneric(f.FullName())
}

func isDropped(cs *ContractSet, key string) bool {
	for _, d := range cs.Dropped {
		if strings.HasPrefix(key, d) {
			return true
		}
		// method form "(*pkg.T).m" / "(pkg.T).m"
		k := strings.TrimPrefix(strings.TrimPrefix(key, "(*"), "(")
		if strings.HasPrefix(k, d) {
			return true
		}
	}
	return false
}

func isPurePkg(cs *ContractSet, f *types.Func) bool {
	if f.Pkg() == nil {
		return true
	}
	p := f.Pkg().Path()
	for _, d := range cs.Pure {
		if p == d || strings.HasPrefix(p, d+"/") {
			return true
		}
	}
	return false
}

// call handles a call in code mode.
func (u *Unit) call(ev *Ev, x *ast.CallExpr, callee types.Object) Value {
	info := ev.info()
	// immediately-invoked or local closure
	funV := Value{}
	var recv *Value
	var fobj *types.Func
	switch c := callee.(type) {
	case *types.Func:
		fobj = c
		if sel, ok := ast.Unparen(x.Fun).(*ast.SelectorExpr); ok {
			if s, ok := info.Selections[sel]; ok && (s.Kind() == types.MethodVal) {
				base := ev.expr(sel.X)
				// walk embedded path except last
				idx := s.Index()
				r := base
				for _, i := range idx[:len(idx)-1] {
					r = ev.stepField(r, i, sel.Pos())
				}
				if fsig, ok := c.Type().(*types.Signature); ok && fsig.Recv() != nil && r.K == vStruct && len(idx) > 1 {
					if _, ptrRecv := fsig.Recv().Type().(*types.Pointer); ptrRecv {
						// pointer-receiver method promoted from an embedded struct: the receiver is the address of the embedded field
						if bp, ok := base.Typ.Underlying().(*types.Pointer); ok && base.K == vScalar {
							if stt, ok := structOf(bp.Elem()); ok {
								var names []string
								cur := stt
								okPath := true
								for _, i := range idx[:len(idx)-1] {
									f := cur.Field(i)
									names = append(names, f.Name())
									nx, ok := structOf(f.Type())
									if !ok {
										okPath = false
										break
									}
									cur = nx
								}
								if okPath {
									pre := strings.Join(names, ".")
									lv := &LValue{K: lvHeap, Root: typeKey(bp.Elem()), rootT: bp.Elem(), Prefix: pre, Ref: base.T, Typ: r.Typ}
									fa := u.declareFun(quote("fieldaddr:"+pre), []Sort{SRef}, SRef)
									av := Value{K: vAddr, LV: lv, Typ: types.NewPointer(r.Typ), S: SRef, T: app(fa, base.T)}
									ev.st.assume(implies(not(app("=", base.T, "nil")), not(app("=", av.T, "nil"))))
									r = av
								}
							}
						}
					}
				}
				if fsig, ok := c.Type().(*types.Signature); ok && fsig.Recv() != nil && r.K == vStruct && len(idx) == 1 && !isOpaqueStruct(r.Typ) {
					if _, ptrRecv := fsig.Recv().Type().(*types.Pointer); ptrRecv {
						// x.f.M() with pointer receiver M on the struct held in field f: the receiver is &x.f
						if lv := ev.lvalue(sel.X); lv != nil && lv.K == lvHeap && lv.Ref != "" {
							fa := u.declareFun(quote("fieldaddr:"+lv.Prefix), []Sort{SRef}, SRef)
							av := Value{K: vAddr, LV: lv, Typ: types.NewPointer(r.Typ), S: SRef, T: app(fa, lv.Ref)}
							ev.st.assume(not(app("=", av.T, "nil")))
							r = av
						}
					}
				}
				if r.K == vStruct && len(r.Comp) == 0 && isOpaqueStruct(r.Typ) {
					// method on an opaque struct held in a field (sync/atomic values): the receiver is identified by the field's address
					r = scalar(u.objKey(ev, sel.X), SRef, types.NewPointer(r.Typ))
				}
				recv = &r
			}
		}
	default:
		funV = ev.expr(x.Fun)
		if funV.K == vMethod {
			if f, ok := funV.Obj.(*types.Func); ok {
				fobj = f
				recv = funV.Recv
			}
		}
	}
	if fobj != nil {
		return u.callFunc(ev, x, fobj, recv)
	}
	// function value
	var args []Value
	sig, _ := ev.typeOf(x.Fun).Underlying().(*types.Signature)
	args = ev.evalArgs(x, sig)
	if funV.K == vFunc && funV.Fn != nil {
		return u.callLit(ev, funV, args, x)
	}
	return u.callOpaque(ev, funV, sig, args, x)
}

func (ev *Ev) evalArgs(x *ast.CallExpr, sig *types.Signature) []Value {
	var args, raw []Value
	ev.u.lastRawArgs = nil
	if len(x.Args) == 1 && sig != nil && sig.Params().Len() > 1 {
		// f(g()) with multi-value g
		v := ev.expr(x.Args[0])
		if v.K == vTuple {
			return v.Tuple
		}
		return []Value{v}
	}
	for i, a := range x.Args {
		var pt types.Type
		if sig != nil {
			if sig.Variadic() && i >= sig.Params().Len()-1 {
				vt := sig.Params().At(sig.Params().Len() - 1).Type()
				if x.Ellipsis.IsValid() {
					pt = vt
				} else if s, ok := vt.(*types.Slice); ok {
					pt = s.Elem()
				}
			} else if i < sig.Params().Len() {
				pt = sig.Params().At(i).Type()
			}
		}
		v := ev.exprWithType(a, pt)
		raw = append(raw, v)
		args = append(args, ev.coerce(v, pt))
	}
	ev.u.lastRawArgs = raw
	return args
}

// havocHeap forgets all non-ghost heap knowledge (effect of unknown code).
func (u *Unit) havocHeap(st *State, why string) {
	st.heapEpoch++
	u.eng.mu.Lock()
	fams := make(map[string]Sort, len(u.eng.famSorts))
	for k, s := range u.eng.famSorts {
		fams[k] = s
	}
	u.eng.mu.Unlock()
	for _, k := range sortedKeys(fams) {
		if strings.HasPrefix(k, "G:") || k == "alloc" || strings.HasPrefix(k, "V:") {
			continue
		}
		if strings.HasPrefix(k, "CH:") && u.c != nil && u.c.Flags["private_channels"] {
			continue // the unit's channels never escape to the code being called (stated assumption of the unit)
		}
		if _, touched := st.heap[k]; !touched && !u.declared[quote(k+"@0")] {
			continue // never used so far on any path of this unit: a first read after this point yields the new epoch's version
		}
		u.havocFam(st, k, fams[k])
	}
	// allocation only grows
	as := arraySort(SRef, SBool)
	old := u.fam(st, "alloc", as)
	u.famSort("alloc", as)
	nw := u.havocFam(st, "alloc", as)
	st.assume(fmt.Sprintf("(forall ((r Ref)) (! (=> (select %s r) (select %s r)) :pattern ((select %s r))))", old, nw, nw))
}

// growAlloc: the callee may allocate (allocation only grows).
func (u *Unit) growAlloc(st *State) {
	as := arraySort(SRef, SBool)
	u.famSort("alloc", as)
	old := u.fam(st, "alloc", as)
	nw := u.havocFam(st, "alloc", as)
	st.assume(fmt.Sprintf("(forall ((r Ref)) (! (=> (select %s r) (select %s r)) :pattern ((select %s r))))", old, nw, nw))
}

func (u *Unit) callOrdinal(x *ast.CallExpr, name string) string {
	if s, ok := u.callOrd[x]; ok {
		return s
	}
	return name + "#?"
}

func resultTypes(sig *types.Signature) []types.Type {
	var ts []types.Type
	if sig == nil {
		return nil
	}
	for i := 0; i < sig.Results().Len(); i++ {
		ts = append(ts, sig.Results().At(i).Type())
	}
	return ts
}

func packResults(vs []Value) Value {
	if len(vs) == 1 {
		return vs[0]
	}
	return Value{K: vTuple, Tuple: vs}
}

// callOpaque: call of an opaque function value (callback).
func (u *Unit) callOpaque(ev *Ev, f Value, sig *types.Signature, args []Value, x *ast.CallExpr) Value {
	st := ev.st
	if f.K == vAddr {
		f = ev.readLV(f.LV)
	}
	ft := f.T
	if ft == "" {
		ft = u.fresh("fn", SRef)
	}
	name := "fn"
	if id, ok := ast.Unparen(x.Fun).(*ast.Ident); ok {
		name = id.Name
	} else if sel, ok := ast.Unparen(x.Fun).(*ast.SelectorExpr); ok {
		name = sel.Sel.Name
	}
	// ghost counter
	as := arraySort(SRef, SInt)
	u.famSort("G:calls", as)
	cur := u.fam(st, "G:calls", as)
	u.setFam(st, "G:calls", as, app("store", cur, ft, app("+", app("select", cur, ft), "1")))
	// remember arguments of the last call
	st.lets["args:"+ft] = Value{K: vTuple, Tuple: args}
	ord := u.callOrdinal(x, name)
	if u.c != nil && u.c.IterFn == name && u.c.IterFn != "" && len(args) >= 1 {
		// the unit's own contract promises a callback iteration: this is call number idx, with the promised argument
		oev := u.specEv(u.entry.clone(), x.Pos(), u.name+" iterates")
		oev.old = u.entry
		idx := app("-", app("select", cur, ft), app("select", u.fam(u.entry, "G:calls", as), ft))
		oev.binds["idx"] = intV(idx)
		n := oev.expr(u.c.IterCount.Expr)
		u.emit(st, "iter@"+ord+"/bound", app("<", idx, n.T), "call number idx of "+name+" is within the promised count "+u.c.IterCount.Text)
		want := oev.expr(u.c.IterArg.Expr)
		if want.K == vScalar && args[0].K == vScalar {
			u.emit(st, "iter@"+ord+"/arg", app("=", args[0].T, want.T), "call number idx of "+name+" gets "+u.c.IterArg.Text)
		} else {
			u.subsetErr(x.Pos(), "iterates: non-scalar callback argument")
		}
	}
	// call-site assertions written in the caller's contract
	u.callSiteClauses(ev, ord, nil, args, nil)
	nopanic := u.c != nil && (u.c.Flags["callbacks_nopanic"] || u.c.Flags["nopanic:"+name])
	if u.c != nil && len(u.c.CallMods[ord]) > 0 {
		mev := u.specEv(st, x.Pos(), u.name+" call "+ord+" modifies")
		u.havocModifies(mev, u.c.CallMods[ord], nil)
		u.assumeNote("callback " + name + " at " + u.name + " " + ord + " is assumed to change at most the locations listed for it")
	} else if !(u.c != nil && (u.c.Flags["callbacks_noheap"] || u.c.Flags["noheap:"+name])) {
		u.havocHeap(st, "callback "+name)
	}
	u.assumeTypeInvs(st)
	if u.c != nil {
		for _, cl := range u.c.CallEstablishes[ord] {
			eev := u.specEv(st, x.Pos(), u.name+" call "+ord+" establishes")
			st.assume(eev.expr(cl.Expr).T)
			u.assumeNote("callback " + name + " at " + u.name + " " + ord + " is assumed to establish: " + cl.Text)
		}
	}
	if !nopanic {
		ps := st.clone()
		pv := u.fresh("panicval", SRef)
		ps.assume(not(app("=", pv, "nil")))
		ps.lets["panicked:"+ft] = boolV("true")
		u.doPanic(ps, pv)
	}
	st.lets["panicked:"+ft] = boolV("false")
	var res []Value
	for i, t := range resultTypes(sig) {
		if u.c != nil && u.c.Flags["purefn:"+name] && u.sortOf(t) != "" {
			// a deterministic function value (stated assumption): its result is a function of the function and its arguments
			sorts := []Sort{SRef}
			ts := []string{ft}
			for _, a := range args {
				walkValue(a, "", func(path string, l Value) {
					if strings.HasSuffix(path, "#set") || l.T == "" {
						return
					}
					sorts = append(sorts, l.S)
					ts = append(ts, l.T)
				})
			}
			fn := u.declareFun(pureName("fnapp:"+name+fmt.Sprint(i), sorts), sorts, u.sortOf(t))
			rv := scalar(app(fn, ts...), u.sortOf(t), t)
			u.typeFacts(st, rv)
			res = append(res, rv)
			u.assumeNote("function value " + name + " is deterministic (same arguments, same result)")
			continue
		}
		if u.c != nil && u.c.Flags["freshfn:"+name] && u.sortOf(t) == SRef {
			// a constructor callback (stated assumption): every call returns a newly allocated, non-nil object
			r := u.allocRef(st, "fresh_"+name)
			res = append(res, scalar(r, SRef, t))
			u.assumeNote("function value " + name + " returns a newly allocated object on every call")
			continue
		}
		res = append(res, u.freshValue(t, fmt.Sprintf("ret_%s_%d", name, i), st))
	}
	st.lets["ret:"+ft] = Value{K: vTuple, Tuple: res}
	for _, r := range res {
		u.assumeAllocated(st, r)
	}
	return packResults(res)
}

// callSiteClauses evaluates "call X#k: assert/assume" clauses of the unit's contract.
func (u *Unit) callSiteClauses(ev *Ev, ord string, names []string, args []Value, recv *Value) {
	if u.c == nil {
		return
	}
	mk := func() *Ev {
		sev := &Ev{u: u, st: ev.st, old: u.entry, spec: true, binds: map[string]Value{}, pkg: u.pkg, scopePos: ev.scopePos, where: u.name + " call " + ord}
		for i, n := range names {
			if i < len(args) && n != "" && n != "_" {
				sev.binds["arg_"+n] = args[i]
			} else if i >= len(args) && i == len(names)-1 && n != "" && n != "_" {
				// a variadic parameter that received nothing: the empty slice
				sev.binds["arg_"+n] = Value{K: vSlice, Comp: map[string]Value{"#arr": scalar("nil", SRef, nil), "#len": intV("0")}}
			}
		}
		for i, a := range args {
			sev.binds[fmt.Sprintf("arg%d", i)] = a
		}
		sev.binds["argc"] = intV(fmt.Sprint(len(args))) // number of actual arguments (variadic calls)
		for i, a := range u.lastRawArgs {
			sev.binds[fmt.Sprintf("raw%d", i)] = a // argument before the implicit conversion to the parameter type
		}
		if recv != nil {
			sev.binds["arg_recv"] = *recv
		}
		// a parameter of the unit named in a call-site clause denotes its value at ENTRY, as in postconditions: a body that
		// overwrites the parameter before handing it on must not rewrite what the clause compares with
		if u.lit == nil {
			u.bindEntryParams(sev, ev.st)
		}
		return sev
	}
	for i, cl := range u.c.CallAsserts[ord] {
		sev := mk()
		g := sev.expr(cl.Expr)
		u.emit(ev.st, fmt.Sprintf("assert@%s#%d", ord, i), g.T, cl.Text)
	}
	// "call Name#*: assert ..." holds at every call of Name in the unit, wherever it is (or is later added)
	if j := strings.LastIndex(ord, "#"); j > 0 {
		for i, cl := range u.c.CallAsserts[ord[:j]+"#*"] {
			sev := mk()
			g := sev.expr(cl.Expr)
			u.emit(ev.st, fmt.Sprintf("assert@%s#any%d", ord, i), g.T, cl.Text)
		}
	}
	for _, cl := range u.c.CallAssumes[ord] {
		sev := mk()
		g := sev.expr(cl.Expr)
		ev.st.assume(g.T)
		u.assumeNote("assumed at call site " + u.name + " " + ord + ": " + cl.Text)
	}
	u.reached["call "+ord] = true
}

// callLit executes a function literal inline.
func (u *Unit) callLit(ev *Ev, f Value, args []Value, x *ast.CallExpr) Value {
	var out Value
	done := false
	u.execLit(ev.st, f.Fn, args, ev.scopePos, func(st *State, vals []Value) {
		// single continuation: literal bodies with several return paths fork; we merge only the simple case
		if done {
			u.subsetErr(x.Pos(), "inline closure call with several return paths in expression position")
			return
		}
		done = true
		*ev.st = *st
		out = packResults(vals)
	})
	if !done {
		ev.st.dead = true
		ev.st.assume("false")
	}
	return out
}

// callFunc handles calls to declared functions and methods.
func (u *Unit) callFunc(ev *Ev, x *ast.CallExpr, f *types.Func, recv *Value) Value {
	st := ev.st
	key := calleeKey(f)
	sig := f.Type().(*types.Signature)
	cs := u.eng.cs
	short := f.Name()

	// sync primitives
	if f.Pkg() != nil && (f.Pkg().Path() == "sync" || f.Pkg().Path() == "sync/atomic") {
		if v, ok := u.syncCall(ev, x, f, recv); ok {
			return v
		}
	}
	if f.Pkg() != nil && f.Pkg().Path() == "math" {
		if v, ok := u.mathCall(ev, x, f); ok {
			return v
		}
	}
	if key == "sort.Slice" && len(x.Args) == 2 {
		if u.sortSlice(ev, x) {
			return Value{K: vTuple}
		}
	}
	if key == "sort.Search" && len(x.Args) == 2 {
		if v, ok := u.sortSearch(ev, x); ok {
			return v
		}
	}
	args := ev.evalArgs(x, sig)
	ord := u.callOrdinal(x, short)
	c := cs.Funcs[key]
	if c == nil && recv != nil && recv.Typ != nil {
		// method found through embedding / interface: try the static receiver type
		if alt := u.eng.lookupMethodContract(recv.Typ, f.Name()); alt != nil {
			c = alt
		}
	}
	if len(u.iterLists) > 0 && key == "(*container/list.List).Remove" && len(args) == 1 && args[0].T != "" {
		// the traversal idiom reads the successor BEFORE it unlinks the current element (Remove clears the element's links)
		st.lets["listiter_removed:"+args[0].T] = boolV("true")
	}
	if len(u.iterLists) > 0 && key == "(*container/list.Element).Next" && recv != nil && recv.T != "" {
		if _, gone := st.lets["listiter_removed:"+recv.T]; gone {
			u.emit(st, "listiter_next_after_remove@"+ord, "false", "Next() of an element that was already removed from its list is nil: the traversal would stop here and skip the rest of the list")
		}
	}
	if len(u.iterLists) > 0 && recv != nil && (key == "(*container/list.List).PushBack" || key == "(*container/list.List).PushFront") {
		for _, l := range u.iterLists {
			u.emit(st, "listiter_nopush@"+ord, not(app("=", recv.T, l)), "no push onto the list being traversed")
		}
	}
	if c != nil {
		return u.applyContract(ev, c, sig, recv, args, ord, x.Pos(), false)
	}
	var pnames []string
	for i := 0; i < sig.Params().Len(); i++ {
		pnames = append(pnames, sig.Params().At(i).Name())
	}
	u.callSiteClauses(ev, ord, pnames, args, recv)
	if isDropped(cs, key) {
		var res []Value
		for i, t := range resultTypes(sig) {
			res = append(res, u.freshValue(t, fmt.Sprintf("%s_r%d", short, i), st))
		}
		return packResults(res)
	}
	var res []Value
	for i, t := range resultTypes(sig) {
		res = append(res, u.freshValue(t, fmt.Sprintf("%s_r%d", short, i), st))
	}
	if isPurePkg(cs, f) {
		// deterministic pure functions of scalar arguments become uninterpreted functions
		if len(res) == 1 && res[0].K == vScalar && allScalar(args) && recv == nil && len(args) > 0 {
			var sorts []Sort
			var ts []string
			for _, a := range args {
				sorts = append(sorts, a.S)
				ts = append(ts, a.T)
			}
			fn := u.declareFun(pureName(key, sorts), sorts, res[0].S)
			if key == "errors.Is" && len(sorts) == 2 {
				u.errorsIsAxioms(fn)
			}
			res[0] = scalar(app(fn, ts...), res[0].S, res[0].Typ)
		}
		if isErrorsNew(key) {
			st.assume(not(app("=", res[0].T, "nil")))
		}
		return packResults(res)
	}
	u.uncontracted[key] = true
	u.havocHeap(st, "uncontracted "+key)
	u.assumeTypeInvs(st)
	for _, r := range res {
		u.assumeAllocated(st, r)
	}
	return packResults(res)
}

func isErrorsNew(key string) bool {
	return key == "errors.New" || key == "fmt.Errorf"
}

func allScalar(vs []Value) bool {
	for _, v := range vs {
		if v.K != vScalar || v.T == "" {
			return false
		}
	}
	return true
}

// applyContract: assert pre, havoc modifies, assume post. In spec mode (pureUse) no obligations.
func (u *Unit) applyContract(ev *Ev, c *Contract, sig *types.Signature, recv *Value, args []Value, ord string, pos token.Pos, pureUse bool) Value {
	st := ev.st
	cpkg := u.eng.pkgs[c.PkgPath]
	binds := map[string]Value{}
	var pnames []string
	if sig != nil {
		if sig.Recv() != nil && recv != nil {
			rn := sig.Recv().Name()
			if c.RecvName != "" {
				rn = c.RecvName
			}
			if rn != "" && rn != "_" {
				binds[rn] = *recv
			}
		}
		np := sig.Params().Len()
		for i := 0; i < np; i++ {
			n := sig.Params().At(i).Name()
			if c.HasNames && i < len(c.ParamNames) {
				n = c.ParamNames[i]
			}
			pnames = append(pnames, n)
			if n == "" || n == "_" {
				continue
			}
			if sig.Variadic() && i == np-1 {
				// variadic: a slice passed with ... is bound as is; individually passed arguments are packed into a fresh slice
				if len(args) == np && args[i].K == vSlice {
					binds[n] = args[i]
					continue
				}
				if st2, ok := sig.Params().At(i).Type().(*types.Slice); ok && !pureUse {
					arr := u.allocRef(st, "varargs")
					for j := i; j < len(args); j++ {
						ev.assignLV(&LValue{K: lvElem, Ref: arr, Idx: fmt.Sprint(j - i), Typ: st2.Elem(), ElemKey: typeKey(st2.Elem())}, args[j])
					}
					binds[n] = u.withSet(Value{K: vSlice, Typ: sig.Params().At(i).Type(), Comp: map[string]Value{"#arr": scalar(arr, SRef, nil), "#len": intV(fmt.Sprint(len(args) - i))}}, "")
				}
				continue
			}
			if i < len(args) {
				binds[n] = args[i]
			}
		}
	}
	if !pureUse {
		csArgs := args
		if sig.Variadic() && len(pnames) > 0 {
			// call-site clauses see the variadic parameter as the callee does: one slice (empty when nothing was passed)
			last := len(pnames) - 1
			if pv, ok := binds[pnames[last]]; ok && pv.K == vSlice && !(len(args) == len(pnames) && args[last].K == vSlice) {
				csArgs = append(append([]Value(nil), args[:min(last, len(args))]...), pv)
			}
		}
		u.callSiteClauses(ev, ord, pnames, csArgs, recv)
	}
	sev := &Ev{u: u, st: st, old: st, spec: true, binds: binds, pkg: cpkg, where: "contract " + c.Key}
	// lets evaluated in pre-state
	for _, l := range c.Lets {
		if id, ok := l.LHS.(*ast.Ident); ok {
			sev.binds[id.Name] = sev.expr(l.RHS)
		}
	}
	if !pureUse && recv != nil && recv.K == vScalar && recv.Typ != nil {
		if key := typeInvKey(recv.Typ); key != "" && key == u.selfInvKey && !c.Extern {
			u.emit(st, "typeinv@call "+ord, u.typeInvTerm(st, u.eng.cs.TypeInvs[key], u.namedByKey(key), recv.T), "object invariant of the callee's receiver holds at the call")
		}
	}
	if !pureUse {
		for i, r := range c.Requires {
			g := sev.expr(r.Expr)
			u.emit(st, fmt.Sprintf("pre@%s/%d", ord, i), g.T, "requires "+r.Text)
			st.assume(g.T) // proved just above (or the check fails): available afterwards
		}
	}
	if !pureUse && c.IterFn != "" {
		u.callbackIteration(ev, sev, c, pnames, args, ord, pos)
	}
	pre := st.clone()
	var lateMods []Clause
	// havoc
	if !pureUse {
		if !c.HasMod && !c.Flags["pure"] {
			u.havocHeap(st, "callee without modifies: "+c.Key)
			u.havocGhosts(st)
			u.famSort("G:calls", arraySort(SRef, SInt))
			u.havocFam(st, "G:calls", arraySort(SRef, SInt))
		} else {
			var early []Clause
			for _, m := range c.Modifies {
				if m.Expr != nil && mentionsResult(c, m.Expr) {
					lateMods = append(lateMods, m)
				} else if m.Expr != nil && u.repHidden(sev, m.Expr) {
					continue
				} else if c.IterFn != "" && strings.ReplaceAll(m.Text, " ", "") == "calls("+c.IterFn+")" {
					continue // accounted for exactly by the callback iteration
				} else {
					early = append(early, m)
				}
			}
			u.havocModifies(sev, early, c)
		}
		if c.Flags["havoc_heap"] {
			u.havocHeap(st, "callee declared havoc_heap: "+c.Key)
		}
		if c.Flags["allocates"] {
			u.growAlloc(st)
		}
		if c.Flags["modifies_typeargs"] && recv != nil && recv.Typ != nil {
			// generic container: the callee may change the state of the objects of its type arguments (e.g. the buckets of a window)
			rt := recv.Typ
			if p, ok := rt.Underlying().(*types.Pointer); ok {
				rt = p.Elem()
			}
			if n, ok := rt.(*types.Named); ok && n.TypeArgs() != nil {
				for i := 0; i < n.TypeArgs().Len(); i++ {
					ta := n.TypeArgs().At(i)
					if p, ok := ta.Underlying().(*types.Pointer); ok {
						ta = p.Elem()
					}
					if stt, ok := structOf(ta); ok {
						for j := 0; j < stt.NumFields(); j++ {
							u.havocTypeField(sev, ta, stt.Field(j).Name())
						}
					}
				}
			}
		}
	}
	// results
	var res []Value
	rts := resultTypes(sig)
	for i, t := range rts {
		name := fmt.Sprintf("r%d", i)
		if sig.Results().At(i).Name() != "" {
			name = sig.Results().At(i).Name()
		}
		var rv Value
		if c.Flags["pure"] && allScalarOrNone(recv, args) && len(u.leaves(t)) == 1 && u.sortOf(t) != "" && !c.Flags["reads_heap"] {
			// pure function: uninterpreted function of its arguments (deterministic)
			var sorts []Sort
			var ts []string
			if recv != nil {
				sorts = append(sorts, recv.S)
				ts = append(ts, recv.T)
			}
			for _, a := range args {
				sorts = append(sorts, a.S)
				ts = append(ts, a.T)
			}
			if len(ts) > 0 {
				fn := u.declareFun(quote(fmt.Sprintf("pure:%s:%d", c.Key, i)), sorts, u.sortOf(t))
				rv = scalar(app(fn, ts...), u.sortOf(t), t)
			} else {
				rv = scalar(u.declare(quote(fmt.Sprintf("pure:%s:%d", c.Key, i)), u.sortOf(t)), u.sortOf(t), t)
			}
			u.typeFacts(st, rv)
		} else {
			rv = u.freshValue(t, f0(c.Key)+"_"+name, st)
		}
		res = append(res, rv)
		sev.binds[name] = rv
		if i < len(c.ResultNames) {
			sev.binds[c.ResultNames[i]] = rv
		}
	}
	if len(res) == 1 && !hasParamNamed(sig, "result") {
		sev.binds["result"] = res[0]
	}
	if len(lateMods) > 0 {
		u.havocModifies(sev, lateMods, c)
	}
	sev.old = pre
	if c.HasEnsuresPanic || c.Flags["may_panic"] {
		if !pureUse {
			ps := st.clone()
			pev := *sev
			pev.st = ps
			pev.binds = copyBinds(sev.binds)
			for _, e := range c.EnsuresPanic {
				ps.assume(pev.expr(e.Expr).T)
			}
			pv := u.fresh("panicval", SRef)
			ps.assume(not(app("=", pv, "nil")))
			u.doPanic(ps, pv)
		}
	}
	nBefore := len(st.pc)
	locals := u.ghostLocals(c, sig)
	for _, e := range c.Ensures {
		if len(locals) > 0 && e.Expr != nil && mentionsName(e.Expr, locals) {
			// the clause talks about a ghost local of the callee's own activation: proved there, but it says nothing a
			// caller can use (and must not be read against a caller's ghost of the same name)
			continue
		}
		g := sev.expr(e.Expr)
		st.assume(g.T)
	}
	if !pureUse && recv != nil && recv.K == vScalar && recv.Typ != nil {
		if key := typeInvKey(recv.Typ); key != "" && u.eng.cs.TypeInvs[key] != nil && !c.Extern {
			st.assume(u.typeInvTerm(st, u.eng.cs.TypeInvs[key], u.namedByKey(key), recv.T))
		}
	}
	if !pureUse && !(c.HasMod && len(c.Modifies) == 0) {
		u.assumeTypeInvs(st)
	}
	if !pureUse && len(c.Ensures) > 0 {
		u.emitReach(st, "reach/after "+ord, nBefore, "the assumed postcondition of "+shortKey(c.Key)+" is consistent with the state at the call")
	}
	if !pureUse {
		for _, r := range res {
			u.assumeAllocated(st, r)
		}
	}
	if c.Extern || c.Flags["trusted"] {
		u.eng.noteTrusted(u, c)
	}
	return packResults(res)
}

// ghostLocals: names introduced by the callee's own `ghost at <anchor>: name = ...` clauses (not declared ghost variables,
// not parameters or results).
func (u *Unit) ghostLocals(c *Contract, sig *types.Signature) map[string]bool {
	if len(c.GhostAt) == 0 {
		return nil
	}
	out := map[string]bool{}
	for _, gas := range c.GhostAt {
		for _, ga := range gas {
			id, ok := ga.LHS.(*ast.Ident)
			if !ok {
				continue
			}
			if _, isGhost := u.eng.cs.Ghosts[id.Name]; isGhost {
				continue
			}
			out[id.Name] = true
		}
	}
	if sig != nil {
		for i := 0; i < sig.Params().Len(); i++ {
			delete(out, sig.Params().At(i).Name())
		}
		for i := 0; i < sig.Results().Len(); i++ {
			delete(out, sig.Results().At(i).Name())
		}
	}
	for _, r := range c.ResultNames {
		delete(out, r)
	}
	return out
}

func mentionsName(e ast.Expr, names map[string]bool) bool {
	found := false
	ast.Inspect(e, func(n ast.Node) bool {
		if id, ok := n.(*ast.Ident); ok && names[id.Name] {
			found = true
		}
		return !found
	})
	return found
}

func copyBinds(m map[string]Value) map[string]Value {
	n := map[string]Value{}
	for k, v := range m {
		n[k] = v
	}
	return n
}

func allScalarOrNone(recv *Value, args []Value) bool {
	if recv != nil && (recv.K != vScalar || recv.T == "") {
		return false
	}
	return allScalar(args)
}

func f0(key string) string {
	i := strings.LastIndex(key, ".")
	if i >= 0 {
		return key[i+1:]
	}
	return key
}

func (u *Unit) havocGhosts(st *State) {
	st.ghostEpoch++
	for _, g := range u.eng.cs.GhostOrder {
		key := "G:" + g.Name
		u.eng.mu.Lock()
		s, ok := u.eng.famSorts[key]
		u.eng.mu.Unlock()
		if _, touched := st.heap[key]; ok && touched {
			u.havocFam(st, key, s)
		}
	}
}

// havocModifies forgets the locations named in a modifies clause.
// Forms: x.f (one object's field), T.f (the field of every object of type T), ghost variable,
// ghost[idx] (one entry), elems(s) (elements of slice s), m (a Go map value: its contents), heap (everything).
func (u *Unit) havocModifies(sev *Ev, mods []Clause, c *Contract) {
	st := sev.st
	for _, m := range mods {
		e := m.Expr
		if e == nil {
			continue
		}
		if id, ok := e.(*ast.Ident); ok {
			if id.Name == "heap" {
				u.havocHeap(st, "modifies heap")
				continue
			}
			if id.Name == "ghosts" {
				u.havocGhosts(st)
				continue
			}
			if g, ok := u.eng.cs.Ghosts[id.Name]; ok {
				gv := sev.ghostVar(g)
				u.havocFam(st, "G:"+g.Name, gv.S)
				continue
			}
			if id.Name == "calls" {
				u.famSort("G:calls", arraySort(SRef, SInt))
				u.havocFam(st, "G:calls", arraySort(SRef, SInt))
				continue
			}
		}
		if call, ok := e.(*ast.CallExpr); ok {
			if fid, ok := call.Fun.(*ast.Ident); ok {
				switch fid.Name {
				case "elems":
					v := sev.expr(call.Args[0])
					if v.K == vSlice {
						el := v.Typ.Underlying().(*types.Slice).Elem()
						for _, lf := range u.leaves(el) {
							key, as := sev.elemFam(typeKey(el), lf.path, lf.sort)
							cur := u.fam(st, key, as)
							fr := u.fresh("elems", arraySort(SInt, lf.sort))
							arrT, _ := u.resolveView(v.Comp["#arr"].T, "0") // a re-sliced view: the whole base array may change
							u.setFam(st, key, as, app("store", cur, arrT, fr))
						}
					}
					continue
				case "mapof":
					v := sev.expr(call.Args[0])
					u.havocMap(sev, v)
					continue
				case "allmaps":
					// every Go map of the type of the argument (e.g. the child maps of all nodes of a tree)
					v := sev.expr(call.Args[0])
					if v.Typ != nil {
						if mt, ok := v.Typ.Underlying().(*types.Map); ok {
							dom, _, card, ds, _ := sev.mapFams(mt, "", SRef)
							u.havocFam(st, dom, ds)
							u.havocFam(st, card, arraySort(SRef, SInt))
							for _, lf := range u.leaves(mt.Elem()) {
								_, val, _, _, vs := sev.mapFams(mt, lf.path, lf.sort)
								u.havocFam(st, val, vs)
							}
						}
					}
					continue
				case "wg", "wgWaits":
					key := u.objKey(sev, call.Args[0])
					as := arraySort(SRef, SInt)
					fam := "G:wg"
					if fid.Name == "wgWaits" {
						fam = "G:wgw"
					}
					u.famSort(fam, as)
					u.setFam(st, fam, as, app("store", u.fam(st, fam, as), key, u.fresh("wg", SInt)))
					continue
				case "chanLen":
					chv := sev.expr(call.Args[0])
					as := arraySort(SRef, SInt)
					u.famSort("CH:len", as)
					fl := u.fresh("chlen", SInt)
					st.assume(app(">=", fl, "0"))
					u.setFam(st, "CH:len", as, app("store", u.fam(st, "CH:len", as), chv.T, fl))
					continue
				case "calls":
					f := sev.expr(call.Args[0])
					as := arraySort(SRef, SInt)
					u.famSort("G:calls", as)
					u.setFam(st, "G:calls", as, app("store", u.fam(st, "G:calls", as), f.T, u.fresh("calls", SInt)))
					continue
				}
			}
		}
		// pkg.T.f form
		if sel, ok := e.(*ast.SelectorExpr); ok {
			if s2, ok := sel.X.(*ast.SelectorExpr); ok {
				if pid, ok := s2.X.(*ast.Ident); ok {
					if _, bound := sev.binds[pid.Name]; !bound {
						if p := sev.lookupPkgIfNotVar(pid.Name); p != nil {
							if tn, ok := p.Scope().Lookup(s2.Sel.Name).(*types.TypeName); ok {
								if _, isStruct := structOf(tn.Type()); isStruct {
									u.havocTypeField(sev, tn.Type(), sel.Sel.Name)
									continue
								}
							}
						}
					}
				}
			}
		}
		// T.f form
		if sel, ok := e.(*ast.SelectorExpr); ok {
			if id, ok := sel.X.(*ast.Ident); ok {
				if _, bound := sev.binds[id.Name]; !bound && sev.pkg != nil {
					if tn, ok := sev.pkg.Types.Scope().Lookup(id.Name).(*types.TypeName); ok {
						if _, isStruct := structOf(tn.Type()); isStruct {
							u.havocTypeField(sev, tn.Type(), sel.Sel.Name)
							continue
						}
					}
				}
			}
		}
		lv := sev.lvalue(e)
		if lv == nil {
			// maybe a map-typed or pointer-typed expression: havoc what it refers to
			v := sev.expr(e)
			if v.Typ != nil {
				if _, ok := v.Typ.Underlying().(*types.Map); ok {
					u.havocMap(sev, v)
					continue
				}
			}
			sev.errorf(token.NoPos, "cannot interpret modifies target %s", m.Text)
			continue
		}
		if lv.K == lvGhost && len(lv.Idxs) > 0 {
			// one entry of a ghost map
			g := u.eng.cs.Ghosts[lv.Name]
			gv := sev.ghostVar(g)
			_, vs, _ := gv.S.isArray()
			inner := vs
			for i := 1; i < len(lv.Idxs); i++ {
				_, inner, _ = inner.isArray()
			}
			fr := Value{K: vScalar, T: u.fresh("g", inner), S: inner}
			u.setFam(st, "G:"+g.Name, gv.S, sev.ghostStore(gv, lv.Idxs, fr))
			continue
		}
		fresh := u.freshValue(lv.Typ, "mod", st)
		if lv.K == lvGhost && strings.HasPrefix(lv.Name, "let:") && lv.Typ == nil {
			// a ghost local: the fresh value has the sort of the current one
			if cur := st.lets[lv.Name[4:]]; cur.K == vScalar && cur.S != "" {
				fresh = Value{K: vScalar, T: u.fresh("mod", cur.S), S: cur.S, Typ: cur.Typ}
			}
		}
		if lv.Typ != nil {
			if _, ok := lv.Typ.Underlying().(*types.Map); ok && lv.K == lvHeap {
				// field holding a map: contents change, the reference stays
				cur := sev.readLV(lv)
				u.havocMap(sev, cur)
				continue
			}
		}
		save := sev.guardedCheck
		sev.guardedCheck = nil
		sev.assignLV(lv, fresh)
		sev.guardedCheck = save
	}
}

func (u *Unit) havocTypeField(sev *Ev, t types.Type, field string) {
	st := sev.st
	stt, _ := structOf(t)
	for i := 0; i < stt.NumFields(); i++ {
		f := stt.Field(i)
		if f.Name() != field {
			continue
		}
		for _, lf := range u.leaves(f.Type()) {
			p := f.Name()
			if lf.path != "" {
				p += "." + lf.path
			}
			key := u.heapFieldKey(t, p)
			as := arraySort(SRef, lf.sort)
			u.famSort(key, as)
			u.havocFam(st, key, as)
		}
		return
	}
	sev.errorf(token.NoPos, "no field %s in %s", field, t)
}

func (u *Unit) havocMap(sev *Ev, m Value) {
	st := sev.st
	mt, ok := m.Typ.Underlying().(*types.Map)
	if !ok {
		return
	}
	ks := u.sortOf(mt.Key())
	if ks == "" {
		ks = SRef
	}
	dom, _, card, ds, _ := sev.mapFams(mt, "", SRef)
	u.setFam(st, dom, ds, app("store", u.fam(st, dom, ds), m.T, u.fresh("dom", arraySort(ks, SBool))))
	cf := u.fresh("card", SInt)
	st.assume(app(">=", cf, "0"))
	u.setFam(st, card, arraySort(SRef, SInt), app("store", u.fam(st, card, arraySort(SRef, SInt)), m.T, cf))
	for _, lf := range u.leaves(mt.Elem()) {
		_, val, _, _, vs := sev.mapFams(mt, lf.path, lf.sort)
		u.setFam(st, val, vs, app("store", u.fam(st, val, vs), m.T, u.fresh("vals", arraySort(ks, lf.sort))))
	}
}

// ---- sync / atomic / math natives ----

func (u *Unit) syncCall(ev *Ev, x *ast.CallExpr, f *types.Func, recv *Value) (Value, bool) {
	name := f.Name()
	sig := f.Type().(*types.Signature)
	if f.Pkg().Path() == "sync/atomic" {
		if sig.Recv() == nil {
			// atomic.AddInt32(&x, d) etc.
			if len(x.Args) == 0 {
				return Value{}, false
			}
			p := ev.expr(x.Args[0])
			var lv *LValue
			if p.K == vAddr {
				lv = p.LV
			} else if p.Typ != nil {
				if pt, ok := p.Typ.Underlying().(*types.Pointer); ok {
					lv = &LValue{K: lvDeref, Ref: p.T, Typ: pt.Elem()}
				}
			}
			if lv == nil {
				return Value{}, false
			}
			switch {
			case strings.HasPrefix(name, "Add"):
				d := ev.expr(x.Args[1])
				cur := ev.readLV(lv)
				nv := scalar(app("+", cur.T, d.T), SInt, cur.Typ)
				ev.assignLV(lv, nv)
				return nv, true
			case strings.HasPrefix(name, "Load"):
				lvv := ev.readLV(lv)
				u.typeFacts(ev.st, lvv) // a machine cell holds a value of its type
				return lvv, true
			case strings.HasPrefix(name, "Store"):
				ev.assignLV(lv, ev.expr(x.Args[1]))
				return Value{K: vTuple}, true
			case strings.HasPrefix(name, "CompareAndSwap"):
				o := ev.expr(x.Args[1])
				n := ev.expr(x.Args[2])
				cur := ev.readLV(lv)
				ok := app("=", cur.T, o.T)
				ev.assignLV(lv, scalar(app("ite", ok, n.T, cur.T), cur.S, cur.Typ))
				return boolV(ok), true
			case strings.HasPrefix(name, "Swap"):
				n := ev.expr(x.Args[1])
				cur := ev.readLV(lv)
				ev.assignLV(lv, n)
				return cur, true
			}
			return Value{}, false
		}
		// atomic.Int32 etc. methods: treat the struct as an opaque cell keyed by its address — not modelled
		return Value{}, false
	}
	// package sync
	if sig.Recv() == nil {
		return Value{}, false
	}
	rt := sig.Recv().Type()
	if p, ok := rt.(*types.Pointer); ok {
		rt = p.Elem()
	}
	tn := ""
	if n, ok := rt.(*types.Named); ok {
		tn = n.Obj().Name()
	}
	switch tn {
	case "Mutex", "RWMutex", "Locker":
		sel, ok := ast.Unparen(x.Fun).(*ast.SelectorExpr)
		if !ok {
			return Value{K: vTuple}, true
		}
		if ord, ok := u.callOrd[x]; ok {
			u.callSiteClauses(ev, ord, nil, nil, nil) // e.g. "call Lock#*: assert ..." (where a lock may be taken)
		}
		u.lockOp(ev, sel.X, name, x)
		return Value{K: vTuple}, true
	case "WaitGroup", "Once", "Cond", "Pool", "Map":
		// Once.Do(f): runs f at most once — handled as opaque call of f
		if tn == "Once" && name == "Do" {
			fv := ev.expr(x.Args[0])
			if fv.K == vFunc {
				u.subsetErr(x.Pos(), "sync.Once.Do with a literal is not modelled")
			}
			return Value{K: vTuple}, true
		}
		if tn == "Cond" && name == "Wait" {
			// Wait releases the condition's lock and re-acquires it: Unlock + Lock on the owner's lock invariant
			if sel, ok := ast.Unparen(x.Fun).(*ast.SelectorExpr); ok {
				if owner, ok := ast.Unparen(sel.X).(*ast.SelectorExpr); ok {
					base := ev.expr(owner.X)
					for k, li := range u.eng.cs.LockInvs {
						if tk := typeInvKey(base.Typ); tk != "" && strings.HasPrefix(k, tk+".") {
							muExpr := &ast.SelectorExpr{X: owner.X, Sel: ast.NewIdent(li.Field)}
							u.lockOp(ev, muExpr, "Unlock", x)
							u.lockOp(ev, muExpr, "Lock", x)
						}
					}
				}
			}
			return Value{K: vTuple}, true
		}
		if tn == "WaitGroup" {
			// ghost counter per wait group object: Add/Done tracked for balance checks
			sel, ok := ast.Unparen(x.Fun).(*ast.SelectorExpr)
			if ok {
				u.wgOp(ev, sel.X, name, x)
			}
			return Value{K: vTuple}, true
		}
		var res []Value
		for i, t := range resultTypes(sig) {
			res = append(res, u.freshValue(t, fmt.Sprintf("%s_r%d", name, i), ev.st))
		}
		return packResults(res), true
	}
	return Value{}, false
}

// wgOp tracks WaitGroup Add/Done in a ghost counter "G:wg" keyed by the owner object + field.
func (u *Unit) wgOp(ev *Ev, wgExpr ast.Expr, op string, x *ast.CallExpr) {
	key := u.objKey(ev, wgExpr)
	as := arraySort(SRef, SInt)
	u.famSort("G:wg", as)
	cur := u.fam(ev.st, "G:wg", as)
	if ord, ok := u.callOrd[x]; ok {
		u.callSiteClauses(ev, ord, nil, nil, nil)
	}
	switch op {
	case "Add":
		d := ev.expr(x.Args[0])
		u.setFam(ev.st, "G:wg", as, app("store", cur, key, app("+", app("select", cur, key), d.T)))
	case "Done":
		u.setFam(ev.st, "G:wg", as, app("store", cur, key, app("-", app("select", cur, key), "1")))
	case "Wait":
		// ghost count of completed Wait calls per wait group (wgWaits(x) in contracts)
		u.famSort("G:wgw", as)
		w := u.fam(ev.st, "G:wgw", as)
		u.setFam(ev.st, "G:wgw", as, app("store", w, key, app("+", app("select", w, key), "1")))
	}
}

// objKey returns a Ref term identifying the object denoted by an addressable expression such as x.field.
func (u *Unit) objKey(ev *Ev, e ast.Expr) string {
	e = ast.Unparen(e)
	if un, ok := e.(*ast.UnaryExpr); ok && un.Op == token.AND {
		e = un.X
	}
	if sel, ok := e.(*ast.SelectorExpr); ok {
		base := ev.expr(sel.X)
		if base.K == vScalar && base.S == SRef {
			f := u.declareFun(quote("fieldaddr:"+sel.Sel.Name), []Sort{SRef}, SRef)
			return app(f, base.T)
		}
	}
	v := ev.expr(e)
	if v.K == vScalar && v.S == SRef {
		return v.T
	}
	// local variable of struct type (e.g. var wg sync.WaitGroup)
	if id, ok := e.(*ast.Ident); ok {
		n := quote("local:" + id.Name)
		u.declare(n, SRef)
		return n
	}
	return u.fresh("obj", SRef)
}

func (u *Unit) mathCall(ev *Ev, x *ast.CallExpr, f *types.Func) (Value, bool) {
	if u.floatIEEE {
		switch f.Name() {
		case "IsNaN":
			a := ev.expr(x.Args[0])
			return boolV(app("fp.isNaN", a.T)), true
		case "IsInf":
			a := ev.expr(x.Args[0])
			return boolV(app("fp.isInfinite", a.T)), true
		}
		return Value{}, false
	}
	ft := types.Typ[types.Float64]
	switch f.Name() {
	case "Floor":
		a := ev.expr(x.Args[0])
		return scalar(app("rfloor", a.T), SReal, ft), true
	case "Ceil":
		a := ev.expr(x.Args[0])
		return scalar(app("rceil", a.T), SReal, ft), true
	case "Round":
		a := ev.expr(x.Args[0])
		// round half away from zero
		return scalar(app("ite", app(">=", a.T, "0.0"), app("rfloor", app("+", a.T, "0.5")), app("rceil", app("-", a.T, "0.5"))), SReal, ft), true
	case "Max":
		a, b := ev.expr(x.Args[0]), ev.expr(x.Args[1])
		return scalar(app("rmax", a.T, b.T), SReal, ft), true
	case "Min":
		a, b := ev.expr(x.Args[0]), ev.expr(x.Args[1])
		return scalar(app("rmin", a.T, b.T), SReal, ft), true
	case "Abs":
		a := ev.expr(x.Args[0])
		return scalar(app("ite", app(">=", a.T, "0.0"), a.T, app("-", a.T)), SReal, ft), true
	case "IsNaN", "IsInf":
		ev.u.assumeNote("float real: NaN/Inf do not exist in the real model (math.IsNaN/IsInf = false)")
		return boolV("false"), true
	}
	return Value{}, false
}

// pureName: uninterpreted function symbol for a pure Go function; variadic functions get one symbol per argument shape.
// errorsIsAxioms: what the standard library guarantees about errors.Is for all arguments (trusted):
// Is(nil, t) holds only for t == nil, and Is(e, e) holds (comparable targets).
func (u *Unit) errorsIsAxioms(fn string) {
	if u.declared["ax:errors.Is"] {
		return
	}
	u.declared["ax:errors.Is"] = true
	u.axioms = append(u.axioms,
		fmt.Sprintf("(forall ((t Ref)) (! (= (%s nil t) (= t nil)) :pattern ((%s nil t))))", fn, fn),
		fmt.Sprintf("(forall ((e Ref)) (! (%s e e) :pattern ((%s e e))))", fn, fn))
}

func pureName(key string, sorts []Sort) string {
	var sb strings.Builder
	sb.WriteString("pure:" + key)
	for _, s := range sorts {
		sb.WriteString("/" + strings.NewReplacer(" ", "", "(", "", ")", "").Replace(string(s)))
	}
	return quote(sb.String())
}

// callbackIteration: the callee's contract says it calls parameter IterFn once per idx in [0, IterCount) with IterArg(idx).
// When the caller passes a function literal, the literal is verified here like a loop body, with the invariants the caller's
// contract gives for this call site ("call X#k: invariant ..." over idx and the caller's variables).
func (u *Unit) callbackIteration(ev *Ev, sev *Ev, c *Contract, pnames []string, args []Value, ord string, pos token.Pos) {
	st := ev.st
	fi := -1
	for i, n := range pnames {
		if n == c.IterFn {
			fi = i
		}
	}
	if fi < 0 || fi >= len(args) {
		u.subsetErr(pos, "iterates clause of %s names an unknown parameter %s", shortKey(c.Key), c.IterFn)
		return
	}
	as := arraySort(SRef, SInt)
	u.famSort("G:calls", as)
	nV := sev.expr(c.IterCount.Expr)
	n := app("imax", nV.T, "0")
	f := args[fi]
	if f.K != vFunc || f.Fn == nil {
		// opaque callback handed through: only the number of calls is known
		if f.T != "" {
			cur := u.fam(st, "G:calls", as)
			if u.c != nil && u.c.IterFn != "" && !u.c.Flags["trusted"] && u.isOwnParam(f, u.c.IterFn) {
				// the unit's own iterates clause is discharged through the callee's: the callee's calls continue the promised sequence
				oev := u.specEv(u.entry.clone(), pos, u.name+" iterates")
				oev.old = u.entry
				base := app("-", app("select", cur, f.T), app("select", u.fam(u.entry, "G:calls", as), f.T))
				promisedN := oev.expr(u.c.IterCount.Expr)
				u.emit(st, "iter@"+ord+"/bound", app("<=", app("+", base, n), promisedN.T), "the calls made by "+shortKey(c.Key)+" stay within the promised count "+u.c.IterCount.Text)
				j := u.fresh("iteridx", SInt)
				sev2 := *sev
				sev2.binds = copyBinds(sev.binds)
				sev2.binds["idx"] = intV(j)
				got := sev2.expr(c.IterArg.Expr)
				oev.binds["idx"] = intV(app("+", base, j))
				want := oev.expr(u.c.IterArg.Expr)
				if got.K == vScalar && want.K == vScalar {
					u.emit(st, "iter@"+ord+"/arg", implies(and(app("<=", "0", j), app("<", j, n)), app("=", got.T, want.T)),
						"call idx of "+shortKey(c.Key)+" passes the argument promised for call base+idx: "+u.c.IterArg.Text)
				} else {
					u.subsetErr(pos, "iterates: non-scalar callback argument")
				}
			}
			u.setFam(st, "G:calls", as, app("store", cur, f.T, app("+", app("select", cur, f.T), n)))
		}
		if !(u.c != nil && u.c.Flags["callbacks_noheap"]) {
			u.havocHeap(st, "callback iteration "+c.IterFn)
		}
		return
	}
	invs := []Clause(nil)
	if u.c != nil {
		invs = u.c.CallInvs[ord]
	}
	if len(invs) == 0 {
		u.subsetErr(pos, "call %s passes a closure to a callee that iterates it: the caller's contract needs `call %s: invariant ...`", ord, ord)
	}
	u.reached["call "+ord] = true
	check := func(s *State, idx, phase string) {
		for i, inv := range invs {
			se := u.specEv(s, pos, u.name+" call "+ord)
			se.binds["idx"] = intV(idx)
			g := se.expr(inv.Expr)
			u.emit(s, fmt.Sprintf("%s@%s#%d", phase, ord, i), g.T, inv.Text)
		}
	}
	assume := func(s *State, idx string) {
		for _, inv := range invs {
			se := u.specEv(s, pos, u.name+" call "+ord)
			se.binds["idx"] = intV(idx)
			s.assume(se.expr(inv.Expr).T)
		}
	}
	check(st, "0", "inv_entry")
	u.havocLoop(st, f.Fn.Body, nil, nil, pos)
	i := u.fresh("idx", SInt)
	st.assume(and(app("<=", "0", i), app("<=", i, n)))
	assume(st, i)
	if !u.pathBudget() {
		return
	}
	sb := st.clone()
	sb.assume(app("<", i, n))
	sev2 := *sev
	sev2.st = sb
	sev2.binds = copyBinds(sev.binds)
	sev2.binds["idx"] = intV(i)
	elem := sev2.expr(c.IterArg.Expr)
	u.assumeAllocated(sb, elem)
	u.execLit(sb, f.Fn, []Value{elem}, pos, func(se *State, _ []Value) {
		check(se, app("+", i, "1"), "inv_pres")
	})
	st.assume(app("=", i, n))
	u.eng.noteMeta(u, "callback iteration: "+shortKey(c.Key)+" calls its function argument once per index of its iterates clause, in order (clause checked against the callee only for call count and per-call argument)")
}

// setOf returns the set view of a slice value (a fresh unknown set when the value carries none).
func (u *Unit) setOf(v Value) string {
	if sv, ok := v.Comp["#set"]; ok && sv.T != "" {
		return sv.T
	}
	if sl, ok := isSliceT(v.Typ); ok {
		if ss := u.setSortOf(sl.Elem()); ss != "" {
			return u.fresh("set", ss)
		}
	}
	return u.fresh("set", arraySort(SRef, SBool))
}

// zeroWaitGroups: a freshly allocated struct's sync.WaitGroup fields count 0.
func (u *Unit) zeroWaitGroups(st *State, t types.Type, ref string) {
	stt, ok := structOf(t)
	if !ok {
		return
	}
	for i := 0; i < stt.NumFields(); i++ {
		f := stt.Field(i)
		if n, ok := f.Type().(*types.Named); ok && n.Obj().Pkg() != nil && n.Obj().Pkg().Path() == "sync" && n.Obj().Name() == "WaitGroup" {
			as := arraySort(SRef, SInt)
			u.famSort("G:wg", as)
			fa := u.declareFun(quote("fieldaddr:"+f.Name()), []Sort{SRef}, SRef)
			u.setFam(st, "G:wg", as, app("store", u.fam(st, "G:wg", as), app(fa, ref), "0"))
		}
	}
}

// sortSearch models sort.Search(n, func(i int) bool { return P(i) }) for a predicate literal that is a single return
// expression: the result r is in [0, n], P(r) holds if r < n, and P is false below r. This is the library's documented
// contract for a predicate that is monotone on [0, n) - monotonicity is emitted as an obligation of the caller.
func (u *Unit) sortSearch(ev *Ev, x *ast.CallExpr) (Value, bool) {
	lit, ok := ast.Unparen(x.Args[1]).(*ast.FuncLit)
	if !ok || len(lit.Body.List) != 1 || len(lit.Type.Params.List) != 1 || len(lit.Type.Params.List[0].Names) != 1 {
		return Value{}, false
	}
	ret, ok := lit.Body.List[0].(*ast.ReturnStmt)
	if !ok || len(ret.Results) != 1 {
		return Value{}, false
	}
	pname := lit.Type.Params.List[0].Names[0].Name
	n := ev.expr(x.Args[0])
	pred := func(at string) string {
		sev := u.specEv(ev.st, lit.Body.Lbrace+1, u.name+" sort.Search predicate")
		sev.binds[pname] = intV(at)
		saved := len(ev.st.pc)
		t := sev.expr(ret.Results[0]).T
		ev.st.pc = ev.st.pc[:saved]
		return t
	}
	u.nfresh++
	a := fmt.Sprintf("a$%d", u.nfresh)
	b := fmt.Sprintf("b$%d", u.nfresh)
	u.emit(ev.st, "sorted@"+u.callOrdinal(x, "Search"), fmt.Sprintf("(forall ((%s Int) (%s Int)) (=> (and (<= 0 %s) (<= %s %s) (< %s %s) %s) %s))", a, b, a, a, b, b, n.T, pred(a), pred(b)),
		"the predicate handed to sort.Search is monotone on [0, n) (e.g. the slice is sorted)")
	r := u.fresh("search", SInt)
	ev.st.assume(and(app("<=", "0", r), app("<=", r, n.T)))
	ev.st.assume(implies(app("<", r, n.T), pred(r)))
	u.nfresh++
	j := fmt.Sprintf("j$%d", u.nfresh)
	ev.st.assume(fmt.Sprintf("(forall ((%s Int)) (=> (and (<= 0 %s) (< %s %s)) (not %s)))", j, j, j, r, pred(j)))
	u.eng.noteMeta(u, "sort.Search: least index with a true predicate, given the monotonicity obligation (trusted library contract)")
	return intV(r), true
}

// sortSlice models sort.Slice(s, less): the elements of s are permuted (same length, same set view); when less is the
// literal `return s[i] < s[j]` over the same slice expression the result is sorted ascending (trusted library contract).
func (u *Unit) sortSlice(ev *Ev, x *ast.CallExpr) bool {
	sv := ev.expr(x.Args[0])
	if sv.K != vSlice {
		return false
	}
	sl, ok := isSliceT(sv.Typ)
	if !ok || u.sortOf(sl.Elem()) == "" {
		return false
	}
	es := u.sortOf(sl.Elem())
	key, as := ev.elemFam(typeKey(sl.Elem()), "", es)
	cur := u.fam(ev.st, key, as)
	fr := u.fresh("sorted", arraySort(SInt, es))
	u.setFam(ev.st, key, as, app("store", cur, sv.Comp["#arr"].T, fr))
	ascending := false
	if lit, ok := ast.Unparen(x.Args[1]).(*ast.FuncLit); ok && len(lit.Body.List) == 1 && len(lit.Type.Params.List) >= 1 {
		var names []string
		for _, f := range lit.Type.Params.List {
			for _, n := range f.Names {
				names = append(names, n.Name)
			}
		}
		if ret, ok := lit.Body.List[0].(*ast.ReturnStmt); ok && len(ret.Results) == 1 && len(names) == 2 {
			want := fmt.Sprintf("%s[%s] < %s[%s]", exprString(x.Args[0]), names[0], exprString(x.Args[0]), names[1])
			if exprString(ret.Results[0]) == want {
				ascending = true
			}
		}
	}
	if ascending && es == SInt {
		ev.st.assume(fmt.Sprintf("(forall ((a Int) (b Int)) (=> (and (<= 0 a) (<= a b) (< b %s)) (<= (select %s a) (select %s b))))", sv.Comp["#len"].T, fr, fr))
	}
	// every element afterwards is an element of the set view (a permutation keeps the set)
	if st, ok := sv.Comp["#set"]; ok && st.T != "" {
		ev.st.assume(fmt.Sprintf("(forall ((a Int)) (=> (and (<= 0 a) (< a %s)) (select %s (select %s a))))", sv.Comp["#len"].T, st.T, fr))
	}
	u.eng.noteMeta(u, "sort.Slice permutes the slice; sorted ascending for the literal less function s[i] < s[j] (trusted library contract)")
	return true
}

// isOwnParam: the value is the entry value of the unit's parameter with this name.
func (u *Unit) isOwnParam(v Value, name string) bool {
	if u.sig == nil {
		return false
	}
	for i := 0; i < u.sig.Params().Len(); i++ {
		p := u.sig.Params().At(i)
		if p.Name() == name {
			if ev, ok := u.entry.env[p]; ok && ev.K == vScalar && ev.T == v.T {
				return true
			}
		}
	}
	return false
}

// hasParamNamed: the pseudo-variable `result` must not shadow a real parameter of that name (use r0 / a results clause there).
func hasParamNamed(sig *types.Signature, name string) bool {
	if sig == nil {
		return false
	}
	for i := 0; i < sig.Params().Len(); i++ {
		if sig.Params().At(i).Name() == name {
			return true
		}
	}
	return false
}
