package main

import (
	"fmt"
	"go/ast"
	"go/token"
	"go/types"
	"strconv"
	"strings"
)

// specCall evaluates calls inside contract expressions: pseudo-functions, spec functions,
// conversions and pure Go functions under contract.
func (ev *Ev) specCall(x *ast.CallExpr) Value {
	u := ev.u
	name := ""
	switch f := x.Fun.(type) {
	case *ast.Ident:
		name = f.Name
	case *ast.SelectorExpr:
		// pkg.Func or method call — handled below
	case *ast.ParenExpr, *ast.StarExpr, *ast.ArrayType, *ast.MapType:
		// conversion to a type expression
		t := ev.resolveType(x.Fun)
		return ev.convert(ev.expr(x.Args[0]), t, x)
	}
	if name != "" {
		if _, bound := ev.binds[name]; bound {
			name = ""
		}
	}
	switch name {
	case "old":
		if ev.old == nil {
			return ev.errorf(x.Pos(), "old() without an old state")
		}
		oe := *ev
		oe.st = ev.old
		return oe.expr(x.Args[0])
	case "implies":
		a := ev.expr(x.Args[0])
		b := ev.expr(x.Args[1])
		return boolV(implies(a.T, b.T))
	case "iff":
		a := ev.expr(x.Args[0])
		b := ev.expr(x.Args[1])
		return boolV(app("=", a.T, b.T))
	case "ite":
		c := ev.expr(x.Args[0])
		a := ev.expr(x.Args[1])
		b := ev.expr(x.Args[2])
		a, b = ev.coerceNum(a, b)
		if a.S != b.S {
			if a.S == SRef {
				b = ev.box(b)
			} else if b.S == SRef {
				a = ev.box(a)
			}
		}
		if a.K == vScalar {
			r := scalar(app("ite", c.T, a.T, b.T), a.S, a.Typ)
			if r.Typ == nil {
				r.Typ = b.Typ
			}
			return r
		}
		return ev.errorf(x.Pos(), "ite on composite values")
	case "forall", "exists":
		return ev.quant(name, x)
	case "inDom":
		m := ev.expr(x.Args[0])
		k := ev.expr(x.Args[1])
		if m.Typ != nil {
			if mt, ok := m.Typ.Underlying().(*types.Map); ok && m.S == SRef {
				k = ev.mapKey(k, mt.Key())
				dom, _, _, ds, _ := ev.mapFams(mt, "", SRef)
				return boolV(app("select", app("select", u.fam(ev.st, dom, ds), m.T), k.T))
			}
		}
		return ev.errorf(x.Pos(), "inDom on non-map")
	case "card":
		return ev.lenOf(ev.expr(x.Args[0]), x)
	case "len":
		return ev.lenOf(ev.expr(x.Args[0]), x)
	case "calls":
		f := ev.expr(x.Args[0])
		as := arraySort(SRef, SInt)
		u.famSort("G:calls", as)
		return intV(app("select", u.fam(ev.st, "G:calls", as), f.T))
	case "ret", "retOf":
		f := ev.expr(x.Args[0])
		i := 0
		if len(x.Args) > 1 {
			if bl, ok := x.Args[1].(*ast.BasicLit); ok {
				fmt.Sscan(bl.Value, &i)
			}
		}
		if r, ok := ev.st.lets["ret:"+f.T]; ok && i < len(r.Tuple) {
			return r.Tuple[i]
		}
		// never called on this path (or called inside a callee): unconstrained, but the same value at every mention
		nk := fmt.Sprintf("noret:%s:%d", f.T, i)
		if v, ok := ev.st.lets[nk]; ok {
			return v
		}
		nv := scalar(u.fresh("noret", SRef), SRef, nil)
		if f.Typ != nil {
			if sig, ok := f.Typ.Underlying().(*types.Signature); ok && i < sig.Results().Len() {
				nv = u.freshValue(sig.Results().At(i).Type(), "noret", ev.st)
			}
		}
		ev.st.lets[nk] = nv
		if ev.old != nil {
			ev.old.lets[nk] = nv
		}
		if u.entry != nil {
			u.entry.lets[nk] = nv
		}
		return nv
	case "argOf":
		f := ev.expr(x.Args[0])
		i := 0
		if len(x.Args) > 1 {
			if bl, ok := x.Args[1].(*ast.BasicLit); ok {
				fmt.Sscan(bl.Value, &i)
			}
		}
		if r, ok := ev.st.lets["args:"+f.T]; ok && i < len(r.Tuple) {
			return r.Tuple[i]
		}
		return scalar(u.fresh("noarg", SRef), SRef, nil)
	case "panicked":
		f := ev.expr(x.Args[0])
		if r, ok := ev.st.lets["panicked:"+f.T]; ok {
			return r
		}
		return boolV("false")
	case "panicking":
		if ev.st.panicking {
			return boolV("true")
		}
		return boolV("false")
	case "panicValue":
		return scalar(ev.st.panicVal, SRef, nil)
	case "allocated":
		v := ev.expr(x.Args[0])
		as := arraySort(SRef, SBool)
		u.famSort("alloc", as)
		return boolV(app("select", u.fam(ev.st, "alloc", as), v.T))
	case "fresh":
		v := ev.expr(x.Args[0])
		as := arraySort(SRef, SBool)
		u.famSort("alloc", as)
		oldSt := ev.old
		if oldSt == nil {
			oldSt = ev.st
		}
		return boolV(and(not(app("=", v.T, "nil")), not(app("select", u.fam(oldSt, "alloc", as), v.T)), app("select", u.fam(ev.st, "alloc", as), v.T)))
	case "has":
		// has(s, x): x is an element of slice s (set view)
		sv := ev.expr(x.Args[0])
		xv := ev.expr(x.Args[1])
		if sv.K != vSlice {
			return ev.errorf(x.Pos(), "has() needs a slice")
		}
		return boolV(app("select", u.setOf(sv), xv.T))
	case "elemset":
		sv := ev.expr(x.Args[0])
		if sv.K != vSlice {
			return ev.errorf(x.Pos(), "elemset() needs a slice")
		}
		t := u.setOf(sv)
		ss := arraySort(SRef, SBool)
		if c, ok := sv.Comp["#set"]; ok {
			ss = c.S
		}
		return Value{K: vScalar, T: t, S: ss}
	case "domof", "valof":
		// snapshots of a Go map's current key set / value function (usable as ghost locals)
		m := ev.expr(x.Args[0])
		if m.Typ == nil {
			return ev.errorf(x.Pos(), "%s needs a map", name)
		}
		mt, ok := m.Typ.Underlying().(*types.Map)
		if !ok {
			return ev.errorf(x.Pos(), "%s needs a map", name)
		}
		ks := u.sortOf(mt.Key())
		if ks == "" {
			ks = SRef
		}
		if name == "domof" {
			dom, _, _, ds, _ := ev.mapFams(mt, "", SRef)
			return Value{K: vScalar, T: app("select", u.fam(ev.st, dom, ds), m.T), S: arraySort(ks, SBool)}
		}
		es := u.sortOf(mt.Elem())
		if es == "" {
			return ev.errorf(x.Pos(), "valof needs a map with scalar values")
		}
		_, val, _, _, vs := ev.mapFams(mt, "", es)
		return Value{K: vScalar, T: app("select", u.fam(ev.st, val, vs), m.T), S: arraySort(ks, es)}
	case "zeros":
		// zeros(x): the all-default value of x's sort (empty ghost map at any nesting depth)
		xv := ev.expr(x.Args[0])
		if xv.K != vScalar {
			return ev.errorf(x.Pos(), "zeros needs a scalar or ghost-map value")
		}
		return Value{K: vScalar, T: u.zeroOf(xv.S), S: xv.S, Typ: xv.Typ}
	case "nokeys":
		// nokeys(): the empty key set (for ghost maps of type map[string]bool and the like, keyed by references)
		ss := arraySort(SRef, SBool)
		return Value{K: vScalar, T: fmt.Sprintf("((as const %s) false)", ss), S: ss}
	case "addr":
		return scalar(u.objKey(ev, x.Args[0]), SRef, nil)
	case "boxedset":
		// boxedset(x): set view of the string slice held by interface value x
		xv := ev.expr(x.Args[0])
		ss := arraySort(SRef, SBool)
		return Value{K: vScalar, T: app(u.declareFun(quote("boxset:"+string(ss)), []Sort{SRef}, ss), xv.T), S: ss}
	case "upd":
		// upd(a, k, v): array/ghost-map update
		a := ev.expr(x.Args[0])
		ks, vs, ok := a.S.isArray()
		if !ok {
			return ev.errorf(x.Pos(), "upd on a non-array value")
		}
		k := ev.expr(x.Args[1])
		v := ev.expr(x.Args[2])
		if ks == SRef && k.S != SRef {
			k = ev.box(k)
		}
		if ks == SReal && k.S == SInt {
			k = scalar(toReal(k.T), SReal, nil)
		}
		if vs == SRef && v.S != SRef {
			v = ev.box(v)
		}
		if vs == SReal && v.S == SInt {
			v = scalar(toReal(v.T), SReal, nil)
		}
		return Value{K: vScalar, T: app("store", a.T, k.T, v.T), S: a.S, Typ: a.Typ}
	case "held":
		k := u.lockKeySpec(ev, x.Args[0])
		if ev.st.held[k] {
			return boolV("true")
		}
		return boolV("false")
	case "heldw": // held exclusively (Lock, not RLock)
		k := u.lockKeySpec(ev, x.Args[0])
		if ev.st.held[k] && !ev.st.held[k+"#R"] {
			return boolV("true")
		}
		return boolV("false")
	case "min", "max":
		a := ev.expr(x.Args[0])
		for _, e := range x.Args[1:] {
			b := ev.expr(e)
			a, b = ev.coerceNum(a, b)
			op := "<="
			if name == "max" {
				op = ">="
			}
			a = scalar(app("ite", app(op, a.T, b.T), a.T, b.T), a.S, a.Typ)
		}
		return a
	case "abs":
		a := ev.expr(x.Args[0])
		z := "0"
		if a.S == SReal {
			z = "0.0"
		}
		return scalar(app("ite", app(">=", a.T, z), a.T, app("-", a.T)), a.S, a.Typ)
	case "floor":
		a := ev.expr(x.Args[0])
		if a.S == SInt {
			return a
		}
		return scalar(app("to_int", a.T), SInt, types.Typ[types.Int])
	case "ceil":
		a := ev.expr(x.Args[0])
		if a.S == SInt {
			return a
		}
		return scalar(app("-", app("to_int", app("-", a.T))), SInt, types.Typ[types.Int])
	case "real":
		a := ev.expr(x.Args[0])
		if a.S == SInt {
			return scalar(toReal(a.T), SReal, types.Typ[types.Float64])
		}
		if a.S == SFP {
			return scalar(app("fp.to_real", a.T), SReal, types.Typ[types.Float64])
		}
		return a
	case "isNaN":
		a := ev.expr(x.Args[0])
		if a.S == SFP {
			return boolV(app("fp.isNaN", a.T))
		}
		return boolV("false")
	case "isInf":
		a := ev.expr(x.Args[0])
		if a.S == SFP {
			return boolV(app("fp.isInfinite", a.T))
		}
		return boolV("false")
	case "div":
		a := ev.expr(x.Args[0])
		b := ev.expr(x.Args[1])
		return intV(app("div", a.T, b.T))
	case "mod":
		a := ev.expr(x.Args[0])
		b := ev.expr(x.Args[1])
		return intV(app("mod", a.T, b.T))
	case "chanLen":
		c := ev.expr(x.Args[0])
		u.famSort("CH:len", arraySort(SRef, SInt))
		return intV(app("select", u.fam(ev.st, "CH:len", arraySort(SRef, SInt)), c.T))
	case "chanCap":
		c := ev.expr(x.Args[0])
		u.famSort("CH:cap", arraySort(SRef, SInt))
		return intV(app("select", u.fam(ev.st, "CH:cap", arraySort(SRef, SInt)), c.T))
	case "wg":
		key := u.objKey(ev, x.Args[0])
		u.famSort("G:wg", arraySort(SRef, SInt))
		return intV(app("select", u.fam(ev.st, "G:wg", arraySort(SRef, SInt)), key))
	case "arrayOf":
		// arrayOf(s): the backing array of slice s (a fresh one after append/make, shared after plain assignment or reslicing)
		v := ev.expr(x.Args[0])
		if v.K != vSlice {
			return ev.errorf(x.Pos(), "arrayOf of a non-slice")
		}
		base, _ := u.resolveView(v.Comp["#arr"].T, "0")
		return scalar(base, SRef, nil)
	case "wgWaits":
		key := u.objKey(ev, x.Args[0])
		u.famSort("G:wgw", arraySort(SRef, SInt))
		return intV(app("select", u.fam(ev.st, "G:wgw", arraySort(SRef, SInt)), key))
	case "strlen":
		a := ev.expr(x.Args[0])
		return intV(app("strlen", a.T))
	case "boxed":
		return ev.box(ev.expr(x.Args[0]))
	case "sameSlice":
		a := ev.expr(x.Args[0])
		b := ev.expr(x.Args[1])
		return boolV(ev.valuesEqual(a, b))
	case "elemsEq":
		// elemsEq(a, b, n): first n elements equal
		a := ev.expr(x.Args[0])
		b := ev.expr(x.Args[1])
		n := ev.expr(x.Args[2])
		el := a.Typ.Underlying().(*types.Slice).Elem()
		var conj []string
		for _, lf := range u.leaves(el) {
			key, as := ev.elemFam(typeKey(el), lf.path, lf.sort)
			cur := u.fam(ev.st, key, as)
			conj = append(conj, fmt.Sprintf("(forall ((i Int)) (=> (and (<= 0 i) (< i %s)) (= (select (select %s %s) i) (select (select %s %s) i))))", n.T, cur, a.Comp["#arr"].T, cur, b.Comp["#arr"].T))
		}
		return boolV(and(conj...))
	case "litContains":
		// litContains(x, "sub"): x is a string LITERAL of the verified source (e.g. a format string at a call site) and
		// contains sub - decided on the literal's text at generation time; false for anything that is not a literal
		if len(x.Args) != 2 {
			return ev.errorf(x.Pos(), "litContains(x, \"sub\")")
		}
		v := ev.expr(x.Args[0])
		bl, ok := ast.Unparen(x.Args[1]).(*ast.BasicLit)
		if !ok || bl.Kind != token.STRING {
			return ev.errorf(x.Pos(), "litContains: second argument must be a string literal")
		}
		sub, err := strconv.Unquote(bl.Value)
		if err != nil {
			return ev.errorf(x.Pos(), "litContains: bad literal")
		}
		for text, sym := range u.strLits {
			if sym == v.T {
				if strings.Contains(text, sub) {
					return boolV("true")
				}
				return boolV("false")
			}
		}
		return boolV("false")
	case "typeIs":
		// typeIs(x, T): the dynamic type of the object x refers to is T (known for objects allocated by composite
		// literals / new in verified code; otherwise unconstrained)
		if len(x.Args) != 2 {
			return ev.errorf(x.Pos(), "typeIs(x, T)")
		}
		v := ev.expr(x.Args[0])
		t := ev.resolveType(x.Args[1])
		if t == nil || v.S != SRef {
			return ev.errorf(x.Pos(), "typeIs: need a reference and a type")
		}
		return boolV(and(not(app("=", v.T, "nil")), app("=", app(u.dynTypeFn(), v.T), u.dynTypeID(t))))
	}
	// spec function?
	if name != "" {
		if sf := ev.lookupSpec(name); sf != nil {
			return ev.applySpec(sf, x)
		}
		// conversion by type name
		if t := ev.tryType(x.Fun); t != nil {
			return ev.convert(ev.expr(x.Args[0]), t, x)
		}
		// Go function in scope under a pure contract
		if ev.pkg != nil {
			if fo, ok := ev.pkg.Types.Scope().Lookup(name).(*types.Func); ok {
				return ev.specGoCall(fo, nil, x)
			}
		}
		return ev.errorf(x.Pos(), "unknown spec function %s", name)
	}
	if sel, ok := x.Fun.(*ast.SelectorExpr); ok {
		// pkg.Type(x) conversion, pkg.Func(x), or method call on a value
		if id, ok := sel.X.(*ast.Ident); ok {
			if _, bound := ev.binds[id.Name]; !bound {
				if p := ev.lookupPkgIfNotVar(id.Name); p != nil {
					obj := p.Scope().Lookup(sel.Sel.Name)
					if obj == nil {
						if sf, ok := u.eng.cs.Specs[p.Path()+"."+sel.Sel.Name]; ok {
							return ev.applySpec(sf, x)
						}
					}
					switch o := obj.(type) {
					case *types.TypeName:
						return ev.convert(ev.expr(x.Args[0]), o.Type(), x)
					case *types.Func:
						if p.Path() == "math" {
							if v, ok := ev.specMath(o.Name(), x); ok {
								return v
							}
						}
						return ev.specGoCall(o, nil, x)
					}
					return ev.errorf(x.Pos(), "unknown %s.%s", id.Name, sel.Sel.Name)
				}
			}
		}
		fv := ev.selector(sel)
		if fv.K == vMethod {
			if fo, ok := fv.Obj.(*types.Func); ok {
				return ev.specGoCall(fo, fv.Recv, x)
			}
		}
		return ev.errorf(x.Pos(), "unsupported call in contract: %s", exprString(x))
	}
	return ev.errorf(x.Pos(), "unsupported call in contract: %s", exprString(x))
}

func (ev *Ev) lookupPkgIfNotVar(name string) *types.Package {
	if _, isLet := ev.st.lets[name]; isLet {
		return nil
	}
	if _, isGhost := ev.u.eng.cs.Ghosts[name]; isGhost {
		return nil
	}
	if ev.pkg != nil {
		var obj types.Object
		if ev.scopePos.IsValid() {
			if sc := ev.pkg.Types.Scope().Innermost(ev.scopePos); sc != nil {
				_, obj = sc.LookupParent(name, ev.scopePos)
			}
		}
		if obj == nil {
			obj = ev.pkg.Types.Scope().Lookup(name)
		}
		if obj != nil {
			if pn, ok := obj.(*types.PkgName); ok {
				return pn.Imported()
			}
			return nil
		}
	}
	return ev.lookupPkg(name)
}

func (ev *Ev) specMath(name string, x *ast.CallExpr) (Value, bool) {
	ft := types.Typ[types.Float64]
	switch name {
	case "Floor":
		return scalar(app("rfloor", ev.realArg(x.Args[0])), SReal, ft), true
	case "Ceil":
		return scalar(app("rceil", ev.realArg(x.Args[0])), SReal, ft), true
	case "Round":
		// round half away from zero (as the code side does)
		a := ev.realArg(x.Args[0])
		return scalar(app("ite", app(">=", a, "0.0"), app("rfloor", app("+", a, "0.5")), app("rceil", app("-", a, "0.5"))), SReal, ft), true
	case "Max":
		return scalar(app("rmax", ev.realArg(x.Args[0]), ev.realArg(x.Args[1])), SReal, ft), true
	case "Min":
		return scalar(app("rmin", ev.realArg(x.Args[0]), ev.realArg(x.Args[1])), SReal, ft), true
	}
	return Value{}, false
}

func (ev *Ev) realArg(e ast.Expr) string {
	v := ev.expr(e)
	if v.S == SInt {
		return toReal(v.T)
	}
	return v.T
}

func (ev *Ev) tryType(e ast.Expr) types.Type {
	id, ok := e.(*ast.Ident)
	if !ok {
		return nil
	}
	if o := types.Universe.Lookup(id.Name); o != nil {
		if tn, ok := o.(*types.TypeName); ok {
			return tn.Type()
		}
	}
	if ev.pkg != nil {
		if tn, ok := ev.pkg.Types.Scope().Lookup(id.Name).(*types.TypeName); ok {
			return tn.Type()
		}
	}
	return nil
}

func (ev *Ev) lookupSpec(name string) *SpecFunc {
	cs := ev.u.eng.cs
	if ev.pkg != nil {
		if sf, ok := cs.Specs[ev.pkg.PkgPath+"."+name]; ok {
			return sf
		}
	}
	if ev.u.pkg != nil {
		if sf, ok := cs.Specs[ev.u.pkg.PkgPath+"."+name]; ok {
			return sf
		}
	}
	// global specs (extern files) and unique bare-name match
	var found *SpecFunc
	for k, sf := range cs.Specs {
		if strings.HasSuffix(k, "."+name) {
			if found != nil && found != sf {
				return found
			}
			found = sf
		}
	}
	return found
}

// applySpec expands a spec function as a macro in the current state.
func (ev *Ev) applySpec(sf *SpecFunc, x *ast.CallExpr) Value {
	if len(x.Args) != len(sf.Params) {
		return ev.errorf(x.Pos(), "spec %s: want %d arguments", sf.Name, len(sf.Params))
	}
	if ev.depth > 40 {
		return ev.errorf(x.Pos(), "spec %s: recursion too deep", sf.Name)
	}
	sub := &Ev{u: ev.u, st: ev.st, old: ev.old, spec: true, binds: map[string]Value{}, pkg: ev.u.eng.pkgs[sf.PkgPath], where: "spec " + sf.Name, depth: ev.depth + 1}
	if sub.pkg == nil {
		sub.pkg = ev.pkg
	}
	if sf.Func {
		return ev.applySpecFn(sf, sub, x)
	}
	for i, p := range sf.Params {
		v := ev.expr(x.Args[i])
		if p.Type != nil {
			t := sub.resolveType(p.Type)
			if t != nil {
				if v.K == vScalar {
					s := ev.u.sortOf(t)
					if s == SReal && v.S == SInt {
						v = scalar(toReal(v.T), SReal, t)
					} else if s == SRef && v.S != SRef {
						v = ev.box(v)
					}
					if _, _, isArr := v.S.isArray(); !isArr && !sameGenericOrigin(v.Typ, t) {
						v.Typ = t
					}
				}
			}
		}
		sub.binds[p.Name] = v
	}
	return sub.expr(sf.Body)
}

// specGoCall: a Go function used inside a contract. Allowed when it has a contract (its ensures are
// assumed for a fresh result) — used for pure helpers.
func (ev *Ev) specGoCall(fo *types.Func, recv *Value, x *ast.CallExpr) Value {
	key := calleeKey(fo)
	c := ev.u.eng.cs.Funcs[key]
	sig := fo.Type().(*types.Signature)
	var args []Value
	for i, a := range x.Args {
		v := ev.expr(a)
		if i < sig.Params().Len() {
			v = ev.coerce(v, sig.Params().At(i).Type())
		}
		args = append(args, v)
	}
	if c == nil {
		if isPurePkg(ev.u.eng.cs, fo) && len(resultTypes(sig)) == 1 && allScalar(args) && recv == nil {
			rt := resultTypes(sig)[0]
			var sorts []Sort
			var ts []string
			for _, a := range args {
				sorts = append(sorts, a.S)
				ts = append(ts, a.T)
			}
			fn := ev.u.declareFun(pureName(key, sorts), sorts, ev.u.sortOf(rt))
			if key == "errors.Is" && len(sorts) == 2 {
				ev.u.errorsIsAxioms(fn)
			}
			return scalar(app(fn, ts...), ev.u.sortOf(rt), rt)
		}
		return ev.errorf(x.Pos(), "Go function %s used in a contract has no contract", key)
	}
	if !c.Flags["pure"] {
		return ev.errorf(x.Pos(), "Go function %s used in a contract is not declared pure", key)
	}
	out := ev.u.applyContract(ev, c, sig, recv, args, "spec", x.Pos(), true)
	if out.K == vTuple && len(out.Tuple) > 0 {
		// a pure function with several results used as a value in a contract: its first result
		return out.Tuple[0]
	}
	return out
}

// quant handles forall(x.(T), y.(U), body) / exists(...).
func (ev *Ev) quant(kind string, x *ast.CallExpr) Value {
	if len(x.Args) < 2 {
		return ev.errorf(x.Pos(), "%s needs binders and a body", kind)
	}
	sub := ev.sub()
	var decls []string
	var guards []string
	for _, b := range x.Args[:len(x.Args)-1] {
		ta, ok := b.(*ast.TypeAssertExpr)
		if !ok {
			return ev.errorf(b.Pos(), "binder must have the form name.(Type)")
		}
		id, ok := ta.X.(*ast.Ident)
		if !ok {
			return ev.errorf(b.Pos(), "binder must have the form name.(Type)")
		}
		t := ev.resolveType(ta.Type)
		s := ev.u.sortOf(t)
		if s == "" {
			return ev.errorf(b.Pos(), "binder of composite type")
		}
		if s == SFP {
			s = SReal
		}
		ev.u.nfresh++
		vn := fmt.Sprintf("%s$%d", id.Name, ev.u.nfresh)
		decls = append(decls, fmt.Sprintf("(%s %s)", vn, s))
		sub.binds[id.Name] = scalar(vn, s, t)
		if t != nil {
			if lo, _, ok := intRange(t); ok && lo == "0" {
				guards = append(guards, app(">=", vn, "0"))
			}
		}
	}
	// the body must not add assumptions to the state: evaluate on a scratch pc
	saved := len(sub.st.pc)
	body := sub.expr(x.Args[len(x.Args)-1])
	sub.st.pc = sub.st.pc[:saved]
	bt := body.T
	if len(guards) > 0 {
		if kind == "forall" {
			bt = implies(and(guards...), bt)
		} else {
			bt = and(append(guards, bt)...)
		}
	}
	return boolV(fmt.Sprintf("(%s (%s) %s)", kind, strings.Join(decls, " "), bt))
}

func (u *Unit) lockKeySpec(ev *Ev, e ast.Expr) string {
	sel, ok := ast.Unparen(e).(*ast.SelectorExpr)
	if !ok {
		return "?"
	}
	base := ev.expr(sel.X)
	return base.T + "." + sel.Sel.Name
}

// applySpecFn: the spec function becomes an SMT function symbol with a definitional axiom (pattern = the application).
func (ev *Ev) applySpecFn(sf *SpecFunc, sub *Ev, x *ast.CallExpr) Value {
	u := ev.u
	fname := quote("spec:" + sf.Name)
	var sorts []Sort
	var args []string
	var ptypes []types.Type
	for i, p := range sf.Params {
		t := sub.resolveType(p.Type)
		s := u.sortOf(t)
		if s == "" || s == SFP {
			return ev.errorf(x.Pos(), "specfn %s: parameter %s must be a scalar", sf.Name, p.Name)
		}
		v := ev.expr(x.Args[i])
		if s == SReal && v.S == SInt {
			v = scalar(toReal(v.T), SReal, t)
		}
		sorts = append(sorts, s)
		args = append(args, v.T)
		ptypes = append(ptypes, t)
	}
	var rt types.Type = types.Typ[types.Bool]
	if sf.Result != nil {
		rt = sub.resolveType(sf.Result)
	}
	rs := u.sortOf(rt)
	key := "specfn:" + sf.Name
	if !u.declared[key] {
		u.declared[key] = true
		u.declareFun(fname, sorts, rs)
		// definitional axiom over bound variables
		def := &Ev{u: u, st: &State{env: map[types.Object]Value{}, heap: map[string]string{}, held: map[string]bool{}, lets: map[string]Value{}}, spec: true, binds: map[string]Value{}, pkg: sub.pkg, where: "specfn " + sf.Name, depth: ev.depth + 1}
		var decls, names []string
		for i, p := range sf.Params {
			u.nfresh++
			vn := fmt.Sprintf("%s$%d", p.Name, u.nfresh)
			decls = append(decls, fmt.Sprintf("(%s %s)", vn, sorts[i]))
			names = append(names, vn)
			def.binds[p.Name] = scalar(vn, sorts[i], ptypes[i])
		}
		body := def.expr(sf.Body)
		if len(def.st.heap) > 0 {
			ev.errorf(x.Pos(), "specfn %s: body must not read the heap", sf.Name)
		}
		appl := app(fname, names...)
		u.condAxioms = append(u.condAxioms, condAxiom{sym: "(" + fname + " ", ax: fmt.Sprintf("(forall (%s) (! (= %s %s) :pattern (%s)))", strings.Join(decls, " "), appl, body.T, appl)})
	}
	ground := true
	for _, a := range args {
		if strings.Contains(a, "$") {
			ground = false
		}
	}
	appT := app(fname, args...)
	if ground && !u.declared["inst:"+appT] {
		u.declared["inst:"+appT] = true
		inst := &Ev{u: u, st: &State{env: map[types.Object]Value{}, heap: map[string]string{}, held: map[string]bool{}, lets: map[string]Value{}}, spec: true, binds: map[string]Value{}, pkg: sub.pkg, where: "specfn " + sf.Name, depth: ev.depth + 1}
		for i, p := range sf.Params {
			inst.binds[p.Name] = scalar(args[i], sorts[i], ptypes[i])
		}
		u.axioms = append(u.axioms, app("=", appT, inst.expr(sf.Body).T))
	}
	return scalar(appT, rs, rt)
}

// sameGenericOrigin: a is an instantiation of the generic type b (possibly behind a pointer): keep the instantiated type so
// that heap families are named consistently with the call site.
func sameGenericOrigin(a, b types.Type) bool {
	if a == nil || b == nil {
		return false
	}
	if pa, ok := a.(*types.Pointer); ok {
		if pb, ok := b.(*types.Pointer); ok {
			return sameGenericOrigin(pa.Elem(), pb.Elem())
		}
		return false
	}
	na, ok1 := a.(*types.Named)
	nb, ok2 := b.(*types.Named)
	if !ok1 || !ok2 {
		return false
	}
	return na.TypeArgs() != nil && na.TypeArgs().Len() > 0 && na.Origin() == nb.Origin()
}
