package main

func (e *Engine) runLua(prop string) ([]*Obligation, []string) { return nil, nil }
