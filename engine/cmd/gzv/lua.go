package main

// gzv lua: symbolic execution of the Redis Lua scripts of /repo (real files, parsed on every run) against an abstract
// Redis state with trusted command contracts. Subset: local/assignment, if/elseif/else, return, arithmetic, comparison,
// and/or/not, tonumber, math.max/min/floor, redis.call with GET, SET [NX] [PX ms], SETEX, INCRBY, EXPIRE, DEL, KEYS[i], ARGV[i].
// Anything else fails closed with subset/<script>.
//
// Abstract state per KEYS[i]:  has_i (key present and unexpired), num_i (numeric reading), str_i (string identity), ttl_i (ms; 0 = none).
// ARGV[i] has a string identity argS_i and a numeric reading argN_i (tonumber).

import (
	"fmt"
	"go/ast"
	"go/parser"
	"go/token"
	"os"
	"path/filepath"
	"sort"
	"strconv"
	"strings"
)

// ---- contracts ----

type LuaContract struct {
	File     string // script path relative to the contract file's directory
	Path     string // absolute
	Name     string // display name
	Props    []string
	Lets     []GhostAssign
	Requires []Clause
	Ensures  []Clause
	NKeys    int
	NArgs    int
	IntArgs  map[int]bool
	Src      string
	Line     int
}

// parseLuaBlocks extracts "//@ lua <file>" blocks from a contract file (called from ParseFile for unknown keyword handling).
func (cs *ContractSet) parseLuaLine(cur **LuaContract, kw, rest, path string, line int) bool {
	switch kw {
	case "lua":
		lc := &LuaContract{File: rest, Path: filepath.Join(filepath.Dir(path), rest), Src: path, Line: line, IntArgs: map[int]bool{}}
		lc.Name = rest
		cs.Lua = append(cs.Lua, lc)
		*cur = lc
		return true
	}
	if *cur == nil {
		return false
	}
	lc := *cur
	switch kw {
	case "property":
		lc.Props = append(lc.Props, strings.Fields(rest)...)
	case "keys":
		lc.NKeys, _ = strconv.Atoi(rest)
	case "args":
		lc.NArgs, _ = strconv.Atoi(rest)
	case "intargs":
		for _, f := range strings.Fields(strings.ReplaceAll(rest, ",", " ")) {
			n, _ := strconv.Atoi(f)
			lc.IntArgs[n] = true
		}
	case "let":
		ga, err := parseGhostAssign(rest, path, line)
		if err != nil {
			cs.Errors = append(cs.Errors, err.Error())
		} else {
			lc.Lets = append(lc.Lets, ga)
		}
	case "requires":
		lc.Requires = append(lc.Requires, cs.clause(rest, path, line))
	case "ensures":
		lc.Ensures = append(lc.Ensures, cs.clause(rest, path, line))
	default:
		return false
	}
	return true
}

// ---- Lua subset parser ----

type luaTok struct {
	kind string // name num str op eof
	val  string
}

func luaLex(src string) ([]luaTok, error) {
	var toks []luaTok
	i := 0
	for i < len(src) {
		c := src[i]
		switch {
		case c == ' ' || c == '\t' || c == '\n' || c == '\r':
			i++
		case c == '-' && i+1 < len(src) && src[i+1] == '-':
			for i < len(src) && src[i] != '\n' {
				i++
			}
		case c >= '0' && c <= '9':
			j := i
			for j < len(src) && (src[j] >= '0' && src[j] <= '9' || src[j] == '.') {
				j++
			}
			toks = append(toks, luaTok{"num", src[i:j]})
			i = j
		case c == '"' || c == '\'':
			j := i + 1
			for j < len(src) && src[j] != c {
				j++
			}
			if j >= len(src) {
				return nil, fmt.Errorf("unterminated string")
			}
			toks = append(toks, luaTok{"str", src[i+1 : j]})
			i = j + 1
		case c == '_' || c >= 'a' && c <= 'z' || c >= 'A' && c <= 'Z':
			j := i
			for j < len(src) && (src[j] == '_' || src[j] >= 'a' && src[j] <= 'z' || src[j] >= 'A' && src[j] <= 'Z' || src[j] >= '0' && src[j] <= '9') {
				j++
			}
			toks = append(toks, luaTok{"name", src[i:j]})
			i = j
		default:
			for _, op := range []string{"==", "~=", "<=", ">=", "..", "(", ")", "[", "]", "+", "-", "*", "/", "<", ">", "=", ",", ".", "%"} {
				if strings.HasPrefix(src[i:], op) {
					toks = append(toks, luaTok{"op", op})
					i += len(op)
					goto next
				}
			}
			return nil, fmt.Errorf("unexpected character %q", c)
		next:
		}
	}
	toks = append(toks, luaTok{"eof", ""})
	return toks, nil
}

type luaExpr struct {
	op   string // num str name nil true false index call bin un
	val  string
	args []*luaExpr
}

type luaStmt struct {
	kind  string // local assign if return call
	name  string
	expr  *luaExpr
	conds []*luaExpr
	blks  [][]*luaStmt
	els   []*luaStmt
}

type luaParser struct {
	toks []luaTok
	pos  int
	err  error
}

func (p *luaParser) peek() luaTok { return p.toks[p.pos] }
func (p *luaParser) next() luaTok {
	t := p.toks[p.pos]
	if p.pos < len(p.toks)-1 {
		p.pos++
	}
	return t
}
func (p *luaParser) isName(n string) bool { t := p.peek(); return t.kind == "name" && t.val == n }
func (p *luaParser) isOp(o string) bool   { t := p.peek(); return t.kind == "op" && t.val == o }
func (p *luaParser) expectOp(o string) {
	if !p.isOp(o) {
		p.fail("expected %q, found %q", o, p.peek().val)
	}
	p.next()
}
func (p *luaParser) expectName(n string) {
	if !p.isName(n) {
		p.fail("expected %q, found %q", n, p.peek().val)
	}
	p.next()
}
func (p *luaParser) fail(f string, a ...any) {
	if p.err == nil {
		p.err = fmt.Errorf(f, a...)
	}
	p.pos = len(p.toks) - 1
}

func (p *luaParser) block(terms ...string) []*luaStmt {
	var out []*luaStmt
	for p.err == nil {
		t := p.peek()
		if t.kind == "eof" {
			return out
		}
		for _, tm := range terms {
			if t.kind == "name" && t.val == tm {
				return out
			}
		}
		out = append(out, p.stmt())
	}
	return out
}

func (p *luaParser) stmt() *luaStmt {
	t := p.peek()
	if t.kind != "name" {
		p.fail("unexpected token %q", t.val)
		return &luaStmt{}
	}
	switch t.val {
	case "local":
		p.next()
		n := p.next()
		if n.kind != "name" {
			p.fail("local needs a name")
		}
		if p.isOp("=") {
			p.next()
			return &luaStmt{kind: "local", name: n.val, expr: p.expr(0)}
		}
		return &luaStmt{kind: "local", name: n.val, expr: &luaExpr{op: "nil"}}
	case "return":
		p.next()
		if p.peek().kind == "eof" || p.isName("end") || p.isName("else") || p.isName("elseif") {
			return &luaStmt{kind: "return", expr: &luaExpr{op: "nil"}}
		}
		return &luaStmt{kind: "return", expr: p.expr(0)}
	case "if":
		p.next()
		s := &luaStmt{kind: "if"}
		s.conds = append(s.conds, p.expr(0))
		p.expectName("then")
		s.blks = append(s.blks, p.block("elseif", "else", "end"))
		for p.isName("elseif") {
			p.next()
			s.conds = append(s.conds, p.expr(0))
			p.expectName("then")
			s.blks = append(s.blks, p.block("elseif", "else", "end"))
		}
		if p.isName("else") {
			p.next()
			s.els = p.block("end")
		}
		p.expectName("end")
		return s
	case "for", "while", "repeat", "function", "goto", "do":
		p.fail("statement %q is outside the verified Lua subset", t.val)
		return &luaStmt{}
	}
	// assignment or call statement
	e := p.expr(0)
	if p.isOp("=") {
		p.next()
		if e.op != "name" {
			p.fail("only plain variables can be assigned")
		}
		return &luaStmt{kind: "assign", name: e.val, expr: p.expr(0)}
	}
	if e.op != "call" {
		p.fail("expression statement must be a call")
	}
	return &luaStmt{kind: "call", expr: e}
}

var luaPrec = map[string]int{"or": 1, "and": 2, "<": 3, ">": 3, "<=": 3, ">=": 3, "==": 3, "~=": 3, "+": 5, "-": 5, "*": 6, "/": 6}

func (p *luaParser) expr(min int) *luaExpr {
	lhs := p.unary()
	for p.err == nil {
		t := p.peek()
		op := t.val
		pr, ok := luaPrec[op]
		if !ok || (t.kind != "op" && t.kind != "name") || pr < min {
			return lhs
		}
		p.next()
		rhs := p.expr(pr + 1)
		lhs = &luaExpr{op: "bin", val: op, args: []*luaExpr{lhs, rhs}}
	}
	return lhs
}

func (p *luaParser) unary() *luaExpr {
	if p.isName("not") {
		p.next()
		return &luaExpr{op: "un", val: "not", args: []*luaExpr{p.unary()}}
	}
	if p.isOp("-") {
		p.next()
		return &luaExpr{op: "un", val: "-", args: []*luaExpr{p.unary()}}
	}
	return p.postfix()
}

func (p *luaParser) postfix() *luaExpr {
	t := p.next()
	var e *luaExpr
	switch t.kind {
	case "num":
		e = &luaExpr{op: "num", val: t.val}
	case "str":
		e = &luaExpr{op: "str", val: t.val}
	case "name":
		switch t.val {
		case "nil", "true", "false":
			e = &luaExpr{op: t.val}
		default:
			e = &luaExpr{op: "name", val: t.val}
		}
	case "op":
		if t.val == "(" {
			e = p.expr(0)
			p.expectOp(")")
		} else {
			p.fail("unexpected %q", t.val)
			return &luaExpr{op: "nil"}
		}
	default:
		p.fail("unexpected end of script")
		return &luaExpr{op: "nil"}
	}
	for p.err == nil {
		switch {
		case p.isOp("."):
			p.next()
			n := p.next()
			e = &luaExpr{op: "name", val: e.val + "." + n.val}
		case p.isOp("["):
			p.next()
			ix := p.expr(0)
			p.expectOp("]")
			e = &luaExpr{op: "index", val: e.val, args: []*luaExpr{ix}}
		case p.isOp("("):
			p.next()
			c := &luaExpr{op: "call", val: e.val}
			for !p.isOp(")") && p.err == nil {
				c.args = append(c.args, p.expr(0))
				if p.isOp(",") {
					p.next()
				}
			}
			p.expectOp(")")
			e = c
		default:
			return e
		}
	}
	return e
}

// ---- symbolic values and state ----

type luaVal struct {
	isNil string // Bool term
	isB   string // Bool term: value is a boolean
	b     string // Bool term (truth value when boolean)
	num   string // Real term
	str   string // Ref term
}

type luaState struct {
	pc     []string
	locals map[string]luaVal
	has    map[int]string
	num    map[int]string
	str    map[int]string
	ttl    map[int]string
	done   bool
}

func (s *luaState) clone() *luaState {
	n := &luaState{pc: append([]string(nil), s.pc...), locals: map[string]luaVal{}, has: map[int]string{}, num: map[int]string{}, str: map[int]string{}, ttl: map[int]string{}}
	for k, v := range s.locals {
		n.locals[k] = v
	}
	for k, v := range s.has {
		n.has[k] = v
	}
	for k, v := range s.num {
		n.num[k] = v
	}
	for k, v := range s.str {
		n.str[k] = v
	}
	for k, v := range s.ttl {
		n.ttl[k] = v
	}
	return n
}

type luaRun struct {
	u      *Unit
	lc     *LuaContract
	entry  *luaState
	errs   []string
	paths  int
	strLit map[string]string
}

func (r *luaRun) subset(f string, a ...any) {
	r.errs = append(r.errs, fmt.Sprintf(f, a...))
}

func (r *luaRun) lit(s string) string {
	if n, ok := r.strLit[s]; ok {
		return n
	}
	n := r.u.strLit(s)
	r.strLit[s] = n
	return n
}

func luaNum(t string) luaVal {
	return luaVal{isNil: "false", isB: "false", b: "true", num: t, str: ""}
}

func (r *luaRun) truthy(v luaVal) string {
	// nil and false are falsy
	return and(not(v.isNil), or(not(v.isB), v.b))
}

func (r *luaRun) strOf(v luaVal) string {
	if v.str != "" {
		return v.str
	}
	f := r.u.declareFun("num2str", []Sort{SReal}, SRef)
	return app(f, v.num)
}

func (r *luaRun) numOf(v luaVal) string {
	if v.num != "" {
		return v.num
	}
	f := r.u.declareFun("str2num", []Sort{SRef}, SReal)
	return app(f, v.str)
}

func (r *luaRun) keyIndex(e *luaExpr) (int, bool) {
	if e.op == "index" && e.val == "KEYS" && e.args[0].op == "num" {
		n, err := strconv.Atoi(e.args[0].val)
		return n, err == nil
	}
	return 0, false
}

func (r *luaRun) emit(st *luaState, kind, goal, note string) {
	tmp := &State{pc: st.pc}
	r.u.emit(tmp, kind, goal, note)
}

func (r *luaRun) eval(st *luaState, e *luaExpr) luaVal {
	u := r.u
	switch e.op {
	case "num":
		t := e.val
		if !strings.Contains(t, ".") {
			t += ".0"
		}
		return luaNum(t)
	case "str":
		return luaVal{isNil: "false", isB: "false", b: "true", str: r.lit(e.val)}
	case "nil":
		return luaVal{isNil: "true", isB: "false", b: "false", num: "0.0", str: "nil"}
	case "true", "false":
		return luaVal{isNil: "false", isB: "true", b: e.op, num: "0.0", str: "nil"}
	case "name":
		if v, ok := st.locals[e.val]; ok {
			return v
		}
		r.subset("unknown variable %s", e.val)
		return luaNum("0.0")
	case "index":
		if e.val == "ARGV" && e.args[0].op == "num" {
			i, _ := strconv.Atoi(e.args[0].val)
			if i < 1 || i > r.lc.NArgs {
				r.subset("ARGV[%d] outside the declared argument count", i)
			}
			return luaVal{isNil: "false", isB: "false", b: "true", num: fmt.Sprintf("argN_%d", i), str: fmt.Sprintf("argS_%d", i)}
		}
		r.subset("unsupported index expression %s[...]", e.val)
		return luaNum("0.0")
	case "un":
		v := r.eval(st, e.args[0])
		if e.val == "not" {
			return luaVal{isNil: "false", isB: "true", b: not(r.truthy(v)), num: "0.0", str: "nil"}
		}
		return luaNum(app("-", r.numOf(v)))
	case "bin":
		switch e.val {
		case "and", "or":
			a := r.eval(st, e.args[0])
			b := r.eval(st, e.args[1])
			ta := r.truthy(a)
			pick := func(x, y string) string {
				if e.val == "and" {
					return app("ite", ta, y, x)
				}
				return app("ite", ta, x, y)
			}
			return luaVal{isNil: pick(a.isNil, b.isNil), isB: pick(a.isB, b.isB), b: pick(a.b, b.b), num: pick(r.numOf(a), r.numOf(b)), str: pick(r.strOf(a), r.strOf(b))}
		}
		a := r.eval(st, e.args[0])
		b := r.eval(st, e.args[1])
		mkb := func(t string) luaVal { return luaVal{isNil: "false", isB: "true", b: t, num: "0.0", str: "nil"} }
		switch e.val {
		case "+", "-", "*":
			return luaNum(app(e.val, r.numOf(a), r.numOf(b)))
		case "/":
			r.emit(st, "divzero@"+r.lc.Name, not(app("=", r.numOf(b), "0.0")), "division by zero (Lua yields inf/nan: outside the real model)")
			return luaNum(app("/", r.numOf(a), r.numOf(b)))
		case "<", "<=", ">", ">=":
			return mkb(app(e.val, r.numOf(a), r.numOf(b)))
		case "==", "~=":
			var eq string
			switch {
			case e.args[0].op == "nil":
				eq = b.isNil
			case e.args[1].op == "nil":
				eq = a.isNil
			case a.str != "" && b.str != "" && a.num == "" || a.str != "" && b.str != "" && b.num == "":
				// string comparison (a nil value has the distinguished identity nil)
				eq = and(app("=", a.isNil, b.isNil), or(a.isNil, app("=", a.str, b.str)))
			case a.str != "" && b.str != "":
				// values with both readings (GET results / ARGV): compared as strings, as Lua does for Redis replies
				eq = and(app("=", a.isNil, b.isNil), or(a.isNil, app("=", a.str, b.str)))
			default:
				eq = and(not(a.isNil), not(b.isNil), app("=", r.numOf(a), r.numOf(b)))
			}
			if e.val == "~=" {
				eq = not(eq)
			}
			return mkb(eq)
		}
		r.subset("unsupported operator %s", e.val)
		return luaNum("0.0")
	case "call":
		switch e.val {
		case "tonumber":
			v := r.eval(st, e.args[0])
			// tonumber(nil) = nil; numeric strings give their numeric reading
			return luaVal{isNil: v.isNil, isB: "false", b: "true", num: r.numOf(v), str: ""}
		case "math.max", "math.min":
			a := r.numOf(r.eval(st, e.args[0]))
			b := r.numOf(r.eval(st, e.args[1]))
			f := "rmax"
			if e.val == "math.min" {
				f = "rmin"
			}
			return luaNum(app(f, a, b))
		case "math.floor":
			return luaNum(app("rfloor", r.numOf(r.eval(st, e.args[0]))))
		case "math.ceil":
			return luaNum(app("rceil", r.numOf(r.eval(st, e.args[0]))))
		case "redis.call":
			return r.redisCall(st, e)
		}
		r.subset("call of %s is outside the verified Lua subset", e.val)
		return luaNum("0.0")
	}
	r.subset("unsupported expression")
	_ = u
	return luaNum("0.0")
}

func (r *luaRun) fresh(st *luaState, name string, s Sort) string { return r.u.fresh(name, s) }

// redisCall applies the trusted command contracts to the abstract state.
func (r *luaRun) redisCall(st *luaState, e *luaExpr) luaVal {
	if len(e.args) < 2 || e.args[0].op != "str" {
		r.subset("redis.call needs a literal command and a key")
		return luaNum("0.0")
	}
	cmd := strings.ToUpper(e.args[0].val)
	k, ok := r.keyIndex(e.args[1])
	if !ok || k < 1 || k > r.lc.NKeys {
		r.subset("redis.call %s: key must be KEYS[i] within the declared key count", cmd)
		return luaNum("0.0")
	}
	setVal := func(v luaVal) {
		st.has[k] = "true"
		st.num[k] = r.numOf(v)
		st.str[k] = r.strOf(v)
	}
	okV := luaVal{isNil: "false", isB: "false", b: "true", str: r.lit("OK")}
	switch cmd {
	case "GET":
		return luaVal{isNil: not(st.has[k]), isB: "false", b: "true", num: st.num[k], str: app("ite", st.has[k], st.str[k], "nil")}
	case "INCRBY":
		d := r.numOf(r.eval(st, e.args[2]))
		nv := app("+", app("ite", st.has[k], st.num[k], "0.0"), d)
		st.ttl[k] = app("ite", st.has[k], st.ttl[k], "0.0")
		st.has[k] = "true"
		st.num[k] = nv
		f := r.u.declareFun("num2str", []Sort{SReal}, SRef)
		st.str[k] = app(f, nv)
		return luaNum(nv)
	case "EXPIRE":
		sec := r.numOf(r.eval(st, e.args[2]))
		r.emit(st, "pre@EXPIRE", app(">", sec, "0.0"), "EXPIRE with a non-positive time deletes the key")
		st.ttl[k] = app("ite", st.has[k], app("*", sec, "1000.0"), st.ttl[k])
		return luaNum(app("ite", st.has[k], "1.0", "0.0"))
	case "SETEX":
		sec := r.numOf(r.eval(st, e.args[2]))
		v := r.eval(st, e.args[3])
		r.emit(st, "pre@SETEX", app(">", sec, "0.0"), "SETEX requires a positive expire time (Redis raises an error otherwise)")
		setVal(v)
		st.ttl[k] = app("*", sec, "1000.0")
		return okV
	case "SET":
		v := r.eval(st, e.args[2])
		nx := false
		px := ""
		for i := 3; i < len(e.args); i++ {
			if e.args[i].op != "str" {
				r.subset("SET: options must be literals")
				continue
			}
			switch strings.ToUpper(e.args[i].val) {
			case "NX":
				nx = true
			case "PX":
				if i+1 < len(e.args) {
					px = r.numOf(r.eval(st, e.args[i+1]))
					i++
				}
			case "EX":
				if i+1 < len(e.args) {
					px = app("*", r.numOf(r.eval(st, e.args[i+1])), "1000.0")
					i++
				}
			default:
				r.subset("SET option %s not supported", e.args[i].val)
			}
		}
		if px != "" {
			r.emit(st, "pre@SET", app(">", px, "0.0"), "SET PX/EX requires a positive expire time")
		}
		newTTL := "0.0"
		if px != "" {
			newTTL = px
		}
		if nx {
			did := not(st.has[k])
			oh, on, os, ot := st.has[k], st.num[k], st.str[k], st.ttl[k]
			st.has[k] = "true"
			st.num[k] = app("ite", did, r.numOf(v), on)
			st.str[k] = app("ite", did, r.strOf(v), os)
			st.ttl[k] = app("ite", did, newTTL, ot)
			_ = oh
			// reply: OK or nil (go-redis maps the nil bulk reply to redis.Nil)
			return luaVal{isNil: not(did), isB: "false", b: "true", str: app("ite", did, r.lit("OK"), "nil")}
		}
		setVal(v)
		st.ttl[k] = newTTL
		return okV
	case "DEL":
		was := st.has[k]
		st.has[k] = "false"
		st.ttl[k] = "0.0"
		return luaNum(app("ite", was, "1.0", "0.0"))
	}
	r.subset("redis command %s is outside the trusted command set", cmd)
	return luaNum("0.0")
}

func (r *luaRun) exec(st *luaState, stmts []*luaStmt, k func(*luaState)) {
	if len(stmts) == 0 {
		k(st)
		return
	}
	s := stmts[0]
	rest := stmts[1:]
	switch s.kind {
	case "local", "assign":
		st.locals[s.name] = r.eval(st, s.expr)
		r.exec(st, rest, k)
	case "call":
		r.eval(st, s.expr)
		r.exec(st, rest, k)
	case "return":
		v := r.eval(st, s.expr)
		r.finish(st, v)
	case "if":
		var rec func(st *luaState, i int)
		rec = func(st *luaState, i int) {
			if i >= len(s.conds) {
				if s.els != nil {
					r.exec(st, s.els, func(s2 *luaState) { r.exec(s2, rest, k) })
				} else {
					r.exec(st, rest, k)
				}
				return
			}
			c := r.truthy(r.eval(st, s.conds[i]))
			r.paths++
			if r.paths > 200 {
				r.subset("path budget exceeded")
				return
			}
			s2 := st.clone()
			st.pc = append(st.pc, c)
			s2.pc = append(s2.pc, not(c))
			r.exec(st, s.blks[i], func(s3 *luaState) { r.exec(s3, rest, k) })
			rec(s2, i+1)
		}
		rec(st, 0)
	default:
		r.subset("unsupported statement")
	}
}

// ---- contract expressions (Go expression syntax) ----

type luaSpecEv struct {
	r      *luaRun
	st     *luaState
	old    *luaState
	result *luaVal
	lets   map[string]string
	sorts  map[string]Sort
}

func (ev *luaSpecEv) intArg(e ast.Expr) (int, bool) {
	bl, ok := e.(*ast.BasicLit)
	if !ok {
		return 0, false
	}
	n, err := strconv.Atoi(bl.Value)
	return n, err == nil
}

func (ev *luaSpecEv) expr(e ast.Expr) (string, Sort) {
	r := ev.r
	bad := func(f string, a ...any) (string, Sort) {
		r.u.eng.specError("lua " + r.lc.Name + ": " + fmt.Sprintf(f, a...))
		return "false", SBool
	}
	switch x := e.(type) {
	case *ast.ParenExpr:
		return ev.expr(x.X)
	case *ast.BasicLit:
		switch x.Kind {
		case token.INT:
			return x.Value + ".0", SReal
		case token.FLOAT:
			return x.Value, SReal
		case token.STRING:
			s, _ := strconv.Unquote(x.Value)
			return r.lit(s), SRef
		}
	case *ast.Ident:
		switch x.Name {
		case "true", "false":
			return x.Name, SBool
		case "nil":
			return "nil", SRef
		}
		if t, ok := ev.lets[x.Name]; ok {
			return t, ev.sorts[x.Name]
		}
		return bad("unknown name %s", x.Name)
	case *ast.UnaryExpr:
		t, s := ev.expr(x.X)
		switch x.Op {
		case token.NOT:
			return not(t), SBool
		case token.SUB:
			return app("-", t), s
		}
	case *ast.BinaryExpr:
		a, sa := ev.expr(x.X)
		b, _ := ev.expr(x.Y)
		switch x.Op {
		case token.LAND:
			return and(a, b), SBool
		case token.LOR:
			return or(a, b), SBool
		case token.EQL:
			return app("=", a, b), SBool
		case token.NEQ:
			return not(app("=", a, b)), SBool
		case token.LSS, token.LEQ, token.GTR, token.GEQ:
			return app(x.Op.String(), a, b), SBool
		case token.ADD, token.SUB, token.MUL, token.QUO:
			return app(x.Op.String(), a, b), sa
		}
	case *ast.CallExpr:
		name := exprString(x.Fun)
		arg := func(i int) string { t, _ := ev.expr(x.Args[i]); return t }
		switch name {
		case "old":
			o := *ev
			o.st = ev.old
			return o.expr(x.Args[0])
		case "implies":
			return implies(arg(0), arg(1)), SBool
		case "iff":
			return app("=", arg(0), arg(1)), SBool
		case "ite":
			_, s := ev.expr(x.Args[1])
			return app("ite", arg(0), arg(1), arg(2)), s
		case "min":
			return app("rmin", arg(0), arg(1)), SReal
		case "max":
			return app("rmax", arg(0), arg(1)), SReal
		case "floor":
			return app("rfloor", arg(0)), SReal
		case "ceil":
			return app("rceil", arg(0)), SReal
		case "isint":
			return app("=", arg(0), app("rfloor", arg(0))), SBool
		case "has", "num", "str", "ttl":
			i, ok := ev.intArg(x.Args[0])
			if !ok || i < 1 || i > r.lc.NKeys {
				return bad("%s needs a key index within the declared key count", name)
			}
			switch name {
			case "has":
				return ev.st.has[i], SBool
			case "num":
				return ev.st.num[i], SReal
			case "str":
				return ev.st.str[i], SRef
			default:
				return ev.st.ttl[i], SReal
			}
		case "argn", "args":
			i, ok := ev.intArg(x.Args[0])
			if !ok || i < 1 || i > r.lc.NArgs {
				return bad("%s needs an argument index within the declared argument count", name)
			}
			if name == "argn" {
				return fmt.Sprintf("argN_%d", i), SReal
			}
			return fmt.Sprintf("argS_%d", i), SRef
		case "rnum", "rstr", "rnil", "rtrue":
			if ev.result == nil {
				return bad("%s outside ensures", name)
			}
			switch name {
			case "rnum":
				return r.numOf(*ev.result), SReal
			case "rstr":
				return r.strOf(*ev.result), SRef
			case "rnil":
				return ev.result.isNil, SBool
			default:
				return r.truthy(*ev.result), SBool
			}
		}
		return bad("unknown function %s", name)
	}
	return bad("unsupported contract expression %s", exprString(e))
}

func (r *luaRun) finish(st *luaState, v luaVal) {
	for i, e := range r.lc.Ensures {
		if e.Expr == nil {
			continue
		}
		ev := &luaSpecEv{r: r, st: st, old: r.entry, result: &v, lets: map[string]string{}, sorts: map[string]Sort{}}
		r.bindLets(ev)
		g, _ := ev.expr(e.Expr)
		r.emit(st, fmt.Sprintf("post#%d", i), g, e.Text)
	}
}

func (r *luaRun) bindLets(ev *luaSpecEv) {
	// lets are evaluated in the pre-state
	pre := &luaSpecEv{r: r, st: r.entry, old: r.entry, lets: ev.lets, sorts: ev.sorts}
	for _, l := range r.lc.Lets {
		id, ok := l.LHS.(*ast.Ident)
		if !ok {
			continue
		}
		t, s := pre.expr(l.RHS)
		ev.lets[id.Name] = t
		ev.sorts[id.Name] = s
	}
}

func (e *Engine) runLua(prop string) ([]*Obligation, []string) {
	var out []*Obligation
	var names []string
	for _, lc := range e.cs.Lua {
		if !(prop == "" || hasProp(lc.Props, prop)) {
			continue
		}
		rel, _ := filepath.Rel(e.repo, lc.Path)
		name := filepath.ToSlash(rel)
		lc.Name = name
		names = append(names, name)
		u := &Unit{eng: e, name: name, declared: map[string]bool{}, assumptions: map[string]bool{}, uncontracted: map[string]bool{},
			strLits: map[string]string{}, oblCount: map[string]int{}, loopOrd: map[ast.Stmt]string{}, callOrd: map[*ast.CallExpr]string{},
			litOrd: map[*ast.FuncLit]int{}, allocd: map[string]bool{}, reached: map[string]bool{}, maxPaths: 200, entryHeld: map[string]bool{}}
		fail := func(kind, msg string) {
			out = append(out, &Obligation{Name: kind + "/" + name, Func: name, Kind: kind, Property: lc.Props, Goal: "false", Status: "failed-nomodel", RawOut: msg, Note: lc.Src})
		}
		src, err := os.ReadFile(lc.Path)
		if err != nil {
			fail("target", "script named by the contract was not found: "+err.Error())
			continue
		}
		toks, err := luaLex(string(src))
		if err != nil {
			fail("subset", err.Error())
			continue
		}
		p := &luaParser{toks: toks}
		prog := p.block()
		if p.err != nil {
			fail("subset", p.err.Error())
			continue
		}
		r := &luaRun{u: u, lc: lc, strLit: map[string]string{}}
		st := &luaState{locals: map[string]luaVal{}, has: map[int]string{}, num: map[int]string{}, str: map[int]string{}, ttl: map[int]string{}}
		for i := 1; i <= lc.NKeys; i++ {
			st.has[i] = u.declare(fmt.Sprintf("has_%d", i), SBool)
			st.num[i] = u.declare(fmt.Sprintf("num_%d", i), SReal)
			st.str[i] = u.declare(fmt.Sprintf("str_%d", i), SRef)
			st.ttl[i] = u.declare(fmt.Sprintf("ttl_%d", i), SReal)
			st.pc = append(st.pc, app(">=", st.ttl[i], "0.0"), not(app("=", st.str[i], "nil")))
		}
		for i := 1; i <= lc.NArgs; i++ {
			n := u.declare(fmt.Sprintf("argN_%d", i), SReal)
			s := u.declare(fmt.Sprintf("argS_%d", i), SRef)
			st.pc = append(st.pc, not(app("=", s, "nil")))
			if lc.IntArgs[i] {
				st.pc = append(st.pc, app("=", n, app("rfloor", n)))
			}
		}
		r.entry = st.clone()
		ev := &luaSpecEv{r: r, st: st, old: r.entry, lets: map[string]string{}, sorts: map[string]Sort{}}
		r.bindLets(ev)
		for _, rq := range lc.Requires {
			if rq.Expr == nil {
				continue
			}
			g, _ := ev.expr(rq.Expr)
			st.pc = append(st.pc, g)
		}
		r.entry.pc = append([]string(nil), st.pc...)
		u.emitSat(&State{pc: st.pc}, "vacuity/pre", "script preconditions are satisfiable")
		r.exec(st, prog, func(s2 *luaState) {
			r.finish(s2, luaVal{isNil: "true", isB: "false", b: "false", num: "0.0", str: "nil"})
		})
		if len(r.errs) > 0 {
			sort.Strings(r.errs)
			fail("subset", strings.Join(r.errs, "\n"))
		}
		u.finalize()
		for _, o := range u.obls {
			o.Property = lc.Props
		}
		out = append(out, u.obls...)
		e.luaTrusted = append(e.luaTrusted, "Redis command contracts (GET, SET [NX] [PX], SETEX, INCRBY, EXPIRE, DEL) over the abstract key state (has, num, str, ttl) — trusted",
			"atomic-script rule: Redis runs a Lua script atomically, so what holds for one run from any state holds under every interleaving of clients (trusted)",
			"Lua numbers are modelled as reals (doubles are exact for the integer ranges involved)")
	}
	_ = parser.ParseExpr
	return out, names
}
