package main

import (
	"fmt"
	"go/ast"
	"go/token"
	"go/types"
	"sort"
	"strings"
)

// ---- locks ----

func (u *Unit) guardOn() bool {
	return u.c != nil && !u.c.Flags["nolock"]
}

func (u *Unit) lockInvFor(t types.Type, field string) *LockInv {
	if t == nil {
		return nil
	}
	if p, ok := t.Underlying().(*types.Pointer); ok {
		t = p.Elem()
	}
	n, ok := t.(*types.Named)
	if !ok || n.Obj().Pkg() == nil {
		return nil
	}
	k := n.Obj().Pkg().Path() + "." + n.Obj().Name() + "." + field
	return u.eng.cs.LockInvs[k]
}

// lockOp handles x.mu.Lock()/Unlock()/RLock()/RUnlock().
func (u *Unit) lockOp(ev *Ev, muExpr ast.Expr, op string, at *ast.CallExpr) {
	st := ev.st
	if id, ok := ast.Unparen(muExpr).(*ast.Ident); ok {
		u.globalLockOp(ev, id, op, at)
		return
	}
	sel, ok := ast.Unparen(muExpr).(*ast.SelectorExpr)
	if !ok {
		return
	}
	base := ev.expr(sel.X)
	if base.K == vAddr {
		base = ev.readLV(base.LV)
	}
	li := u.lockInvFor(base.Typ, sel.Sel.Name)
	key := base.T + "." + sel.Sel.Name
	switch op {
	case "Lock", "RLock":
		st.held[key] = true
		if op == "RLock" {
			st.held[key+"#R"] = true // shared mode: reads only
		} else {
			delete(st.held, key+"#R")
		}
		if li == nil {
			return
		}
		u.eng.noteMeta(u, "monitor rule: sync.Mutex/RWMutex give mutual exclusion (trusted); each critical section is verified as assume-invariant-at-Lock / assert-invariant-at-Unlock")
		// havoc guarded fields of this object
		sev := u.specEv(st, at.Pos(), "lock "+li.TypeName+"."+li.Field)
		sev.binds[li.Recv] = base
		sev.pkg = u.eng.pkgs[li.PkgPath]
		var mods []Clause
		for _, g := range li.Guarded {
			e, err := parseExprAt(li.Recv+"."+g, "lockinv", 0)
			if err == nil {
				mods = append(mods, Clause{Text: li.Recv + "." + g, Expr: e})
			}
		}
		if !u.firstLockDone(st, key) || true {
			u.havocModifies(sev, mods, nil)
		}
		for _, inv := range li.Invs {
			g := sev.expr(inv.Expr)
			st.assume(g.T)
		}
		if u.c != nil && u.c.Flags["old_at_lock"] && !u.oldRebased {
			// the operation takes effect inside its critical section: old() in the postconditions refers to the state in
			// which the lock was acquired (what other threads did before that is not this operation's business)
			u.oldRebased = true
			lets := u.entry.lets
			u.entry = st.clone()
			for k, v := range lets {
				if _, ok := u.entry.lets[k]; !ok {
					u.entry.lets[k] = v
				}
			}
			u.eng.noteMeta(u, "old() in "+u.name+" refers to the state at lock acquisition (linearisation point inside the critical section)")
		}
	case "Unlock", "RUnlock":
		if li != nil && op == "Unlock" {
			sev := u.specEv(st, at.Pos(), "unlock "+li.TypeName+"."+li.Field)
			sev.binds[li.Recv] = base
			sev.pkg = u.eng.pkgs[li.PkgPath]
			for i, inv := range li.Invs {
				g := sev.expr(inv.Expr)
				u.emit(st, fmt.Sprintf("lockinv@unlock/%s#%d", u.callOrdinal(at, "Unlock"), i), g.T, inv.Text)
			}
		}
		delete(st.held, key)
		delete(st.held, key+"#R")
	}
}

func (u *Unit) firstLockDone(st *State, key string) bool { return false }

// globalLockOp: a package-level mutex (`lockinv global mu` + guarded_by): at Lock/RLock everything it guards is forgotten
// (other goroutines may have changed it since this one last held the lock) and the invariant is assumed; at Unlock the
// invariant is asserted. Same monitor rule as for mutex fields.
func (u *Unit) globalLockOp(ev *Ev, id *ast.Ident, op string, at *ast.CallExpr) {
	st := ev.st
	obj := ev.info().ObjectOf(id)
	v, ok := obj.(*types.Var)
	if !ok || v.Pkg() == nil || v.Parent() != v.Pkg().Scope() {
		return
	}
	k := v.Pkg().Path() + ".<global>." + v.Name()
	li := u.eng.cs.LockInvs[k]
	key := "global:" + k
	switch op {
	case "Lock", "RLock":
		st.held[key] = true
		if op == "RLock" {
			st.held[key+"#R"] = true
		} else {
			delete(st.held, key+"#R")
		}
		if li == nil {
			return
		}
		u.eng.noteMeta(u, "monitor rule: sync.Mutex/RWMutex give mutual exclusion (trusted); each critical section is verified as assume-invariant-at-Lock / assert-invariant-at-Unlock")
		sev := u.specEv(st, at.Pos(), "lock global "+li.Field)
		sev.pkg = u.eng.pkgs[li.PkgPath]
		var mods []Clause
		for _, g := range li.Guarded {
			txt := g
			if gp := u.eng.pkgs[li.PkgPath]; gp != nil && gp.Types != nil {
				if o := gp.Types.Scope().Lookup(g); o != nil {
					if _, isMap := o.Type().Underlying().(*types.Map); isMap {
						txt = "mapof(" + g + ")" // the contents of the map, not the variable
					}
				}
			}
			if e, err := parseExprAt(txt, "lockinv", 0); err == nil {
				mods = append(mods, Clause{Text: txt, Expr: e})
			}
		}
		u.havocModifies(sev, mods, nil)
		for _, inv := range li.Invs {
			st.assume(sev.expr(inv.Expr).T)
		}
		if u.c != nil && u.c.Flags["old_at_lock"] && !u.oldRebased {
			u.oldRebased = true
			lets := u.entry.lets
			u.entry = st.clone()
			for k, v := range lets {
				if _, ok := u.entry.lets[k]; !ok {
					u.entry.lets[k] = v
				}
			}
			u.eng.noteMeta(u, "old() in "+u.name+" refers to the state at lock acquisition (linearisation point inside the critical section)")
		}
	case "Unlock", "RUnlock":
		if li != nil && op == "Unlock" {
			sev := u.specEv(st, at.Pos(), "unlock global "+li.Field)
			sev.pkg = u.eng.pkgs[li.PkgPath]
			for i, inv := range li.Invs {
				g := sev.expr(inv.Expr)
				u.emit(st, fmt.Sprintf("lockinv@unlock/%s#%d", u.callOrdinal(at, "Unlock"), i), g.T, inv.Text)
			}
		}
		delete(st.held, key)
		delete(st.held, key+"#R")
	}
}

// checkGuarded emits an obligation when a guarded field is accessed without its lock.
func (u *Unit) checkGuarded(ev *Ev, root types.Type, path, ref, what string) {
	if root == nil {
		return
	}
	n, ok := root.(*types.Named)
	if !ok || n.Obj().Pkg() == nil {
		return
	}
	field := path
	if i := strings.IndexAny(path, ".#"); i >= 0 {
		field = path[:i]
	}
	prefix := n.Obj().Pkg().Path() + "." + n.Obj().Name() + "."
	for k, li := range u.eng.cs.LockInvs {
		if !strings.HasPrefix(k, prefix) {
			continue
		}
		for _, g := range li.Guarded {
			if g == field {
				if !ev.st.held[ref+"."+li.Field] {
					if u.allocd[ref] {
						continue // object under construction
					}
					name := fmt.Sprintf("guarded@%s.%s", n.Obj().Name(), field)
					u.emit(ev.st, name, "false", what+" of guarded field without holding "+li.Field)
				} else if what == "write" && ev.st.held[ref+"."+li.Field+"#R"] {
					name := fmt.Sprintf("guarded@%s.%s", n.Obj().Name(), field)
					u.emit(ev.st, name, "false", "write of guarded field while holding "+li.Field+" only in shared (RLock) mode")
				}
			}
		}
	}
}

// ---- exits ----

// bindEntryParams: in postconditions a parameter name denotes the argument the caller passed (its value at entry), as in
// every contract language - Go parameters are assignable locals, and a body that overwrites one must not thereby rewrite
// its own specification.
func (u *Unit) bindEntryParams(sev *Ev, st *State) {
	if u.sig == nil || u.entry == nil {
		return
	}
	for i := 0; i < u.sig.Params().Len(); i++ {
		p := u.sig.Params().At(i)
		if p.Name() == "" || p.Name() == "_" {
			continue
		}
		ev0, ok := u.entry.env[p]
		if !ok {
			continue
		}
		if cur, ok := st.env[p]; ok && cur.T == ev0.T && cur.K == ev0.K && cur.K == vScalar {
			continue // unchanged scalar
		}
		if _, shadow := sev.binds[p.Name()]; shadow {
			continue
		}
		sev.binds[p.Name()] = ev0
	}
}

func (u *Unit) checkExit(st *State, fr *Frame) {
	if u.c == nil {
		return
	}
	if len(st.held) > 0 && !st.panicking && !u.c.Flags["returns_locked"] {
		for k := range st.held {
			if !u.entryHeld[k] && !strings.HasSuffix(k, "#R") {
				u.emit(st, "lock_released", "false", "returns with lock still held: "+k)
			}
		}
	}
	pos := u.body.Rbrace
	if u.selfInvKey != "" && u.recvObj != nil {
		if rv, ok := u.entry.env[u.recvObj]; ok && rv.K == vScalar {
			ti := u.eng.cs.TypeInvs[u.selfInvKey]
			u.emit(st, "typeinv@exit", u.typeInvTerm(st, ti, u.namedByKey(u.selfInvKey), rv.T), "object invariant of the receiver re-established at exit")
		}
	}
	if st.panicking {
		u.reached["exit panic"] = true
		for i, e := range u.c.EnsuresPanic {
			sev := u.specEv(st, pos, u.name+" ensures_panic")
			u.bindEntryParams(sev, st)
			g := sev.expr(e.Expr)
			u.emit(st, fmt.Sprintf("post_panic#%d", i), g.T, e.Text)
		}
		for i, e := range u.c.EnsuresPanicLoc {
			sev := u.specEv(st, pos, u.name+" ensures_panic_local")
			u.bindEntryParams(sev, st)
			g := sev.expr(e.Expr)
			u.emit(st, fmt.Sprintf("post_panic_local#%d", i), g.T, e.Text)
		}
		if u.c.HasMod {
			u.frameCheck(st, pos)
		}
		return
	}
	u.reached["exit return"] = true
	u.publishCheck(st, pos)
	if u.c.IterFn != "" && !u.c.Flags["trusted"] {
		u.iterCountCheck(st, pos)
	}
	sev := u.specEv(st, pos, u.name+" ensures")
	u.bindEntryParams(sev, st)
	var vals []Value
	if len(u.resultObjs) > 0 && len(fr.results) > 0 {
		for _, o := range fr.results {
			vals = append(vals, st.env[o])
		}
	} else if fr.resVals != nil {
		vals = fr.resVals
	} else if u.sig != nil {
		for _, t := range resultTypes(u.sig) {
			vals = append(vals, u.zero(t))
		}
	}
	for i, v := range vals {
		sev.binds[fmt.Sprintf("r%d", i)] = v
		if i < len(u.c.ResultNames) {
			sev.binds[u.c.ResultNames[i]] = v
		}
		if u.sig != nil && i < u.sig.Results().Len() {
			if n := u.sig.Results().At(i).Name(); n != "" && n != "_" {
				sev.binds[n] = v
			}
		}
	}
	if len(vals) == 1 && !hasParamNamed(u.sig, "result") {
		sev.binds["result"] = vals[0]
	}
	for i, e := range u.c.Ensures {
		s2 := *sev
		s2.binds = copyBinds(sev.binds)
		g := s2.expr(e.Expr)
		u.emit(st, fmt.Sprintf("post#%d", i), g.T, e.Text)
	}
	for i, e := range u.c.EnsuresLocal {
		s2 := *sev
		s2.binds = copyBinds(sev.binds)
		g := s2.expr(e.Expr)
		u.emit(st, fmt.Sprintf("post_local#%d", i), g.T, e.Text)
	}
	if u.c.HasMod {
		u.frameCheckWith(st, pos, sev.binds)
	}
}

func (u *Unit) frameCheck(st *State, pos token.Pos) { u.frameCheckWith(st, pos, nil) }

// frameCheck: every heap family changed on this path is covered by the modifies clause.
func (u *Unit) frameCheckWith(st *State, pos token.Pos, resBinds map[string]Value) {
	entry := u.entry
	type target struct {
		wildcard bool
		refs     []string
		ghostIdx [][]Value
	}
	targets := map[string]*target{} // by family-key prefix
	get := func(k string) *target {
		t := targets[k]
		if t == nil {
			t = &target{}
			targets[k] = t
		}
		return t
	}
	oev := u.specEv(entry.clone(), pos, u.name+" modifies")
	oev.old = entry
	heapAll := false
	for _, m := range u.c.Modifies {
		e := m.Expr
		if e == nil {
			continue
		}
		if mentionsResult(u.c, e) {
			// a location named through a result (e.g. the model field of the object returned)
			if resBinds == nil {
				continue
			}
			for k, v := range resBinds {
				if _, has := oev.binds[k]; !has {
					oev.binds[k] = v
				}
			}
		}
		if id, ok := e.(*ast.Ident); ok {
			if id.Name == "heap" {
				heapAll = true
				continue
			}
			if id.Name == "ghosts" {
				for _, g := range u.eng.cs.GhostOrder {
					get("G:" + g.Name).wildcard = true
				}
				continue
			}
			if _, ok := u.eng.cs.Ghosts[id.Name]; ok {
				get("G:" + id.Name).wildcard = true
				continue
			}
			if id.Name == "calls" {
				get("G:calls").wildcard = true // call counters of any function value
				continue
			}
		}
		if call, ok := e.(*ast.CallExpr); ok {
			if fid, ok := call.Fun.(*ast.Ident); ok {
				switch fid.Name {
				case "elems":
					v := oev.expr(call.Args[0])
					if v.K == vSlice {
						el := v.Typ.Underlying().(*types.Slice).Elem()
						t := get("E:" + typeKey(el))
						arrT, _ := u.resolveView(v.Comp["#arr"].T, "0")
						t.refs = append(t.refs, arrT)
					}
					continue
				case "mapof":
					v := oev.expr(call.Args[0])
					if v.Typ != nil {
						if mt, ok := v.Typ.Underlying().(*types.Map); ok {
							for _, p := range []string{"MD:", "MV:", "MC:"} {
								t := get(p + typeKey(mt))
								t.refs = append(t.refs, v.T)
							}
						}
					}
					continue
				case "allmaps":
					v := oev.expr(call.Args[0])
					if v.Typ != nil {
						if mt, ok := v.Typ.Underlying().(*types.Map); ok {
							for _, p := range []string{"MD:", "MV:", "MC:"} {
								get(p + typeKey(mt)).wildcard = true
							}
						}
					}
					continue
				case "chanLen", "wg", "wgWaits":
					continue
				case "calls":
					f := oev.expr(call.Args[0])
					t := get("G:calls")
					t.ghostIdx = append(t.ghostIdx, []Value{f})
					continue
				}
			}
		}
		if sel, ok := e.(*ast.SelectorExpr); ok {
			if s2, ok := sel.X.(*ast.SelectorExpr); ok {
				if pid, ok := s2.X.(*ast.Ident); ok {
					if p := oev.lookupPkgIfNotVar(pid.Name); p != nil {
						if tn, ok := p.Scope().Lookup(s2.Sel.Name).(*types.TypeName); ok {
							get("H:" + typeKey(tn.Type()) + "." + sel.Sel.Name).wildcard = true
							continue
						}
					}
				}
			}
		}
		if sel, ok := e.(*ast.SelectorExpr); ok {
			if id, ok := sel.X.(*ast.Ident); ok && u.pkg != nil {
				isVar := false
				if sc := u.pkg.Types.Scope().Innermost(pos); sc != nil {
					if _, o := sc.LookupParent(id.Name, pos); o != nil {
						if _, isType := o.(*types.TypeName); !isType {
							isVar = true
						}
					}
				}
				if !isVar {
					if tn, ok := u.pkg.Types.Scope().Lookup(id.Name).(*types.TypeName); ok {
						get("H:" + typeKey(tn.Type()) + "." + sel.Sel.Name).wildcard = true
						continue
					}
				}
			}
		}
		lv := oev.lvalue(e)
		if lv == nil {
			v := oev.expr(e)
			if v.Typ != nil {
				if mt, ok := v.Typ.Underlying().(*types.Map); ok {
					for _, p := range []string{"MD:", "MV:", "MC:"} {
						t := get(p + typeKey(mt))
						t.refs = append(t.refs, v.T)
					}
				}
			}
			continue
		}
		switch lv.K {
		case lvHeap:
			t := get("H:" + lv.Root + "." + lv.Prefix)
			t.refs = append(t.refs, lv.Ref)
			if lv.Typ != nil {
				if mt, ok := lv.Typ.Underlying().(*types.Map); ok {
					cur := oev.readLV(lv)
					for _, p := range []string{"MD:", "MV:", "MC:"} {
						tt := get(p + typeKey(mt))
						tt.refs = append(tt.refs, cur.T)
					}
				}
			}
		case lvGhost:
			t := get("G:" + lv.Name)
			if len(lv.Idxs) == 0 {
				t.wildcard = true
			} else {
				t.ghostIdx = append(t.ghostIdx, lv.Idxs)
			}
		case lvElem:
			t := get("E:" + lv.ElemKey)
			t.refs = append(t.refs, lv.Ref)
		case lvMapElem:
			for _, p := range []string{"MD:", "MV:", "MC:"} {
				t := get(p + lv.ElemKey)
				t.refs = append(t.refs, lv.Ref)
			}
		case lvGlobal:
			get("V:" + lv.Obj.Pkg().Name() + "." + lv.Obj.Name()).wildcard = true
		case lvDeref:
			t := get("P:" + typeKey(lv.Typ))
			t.refs = append(t.refs, lv.Ref)
		}
	}
	if heapAll {
		return
	}
	if st.heapEpoch > 0 && !u.c.Flags["havoc_heap"] {
		// something on this path forgot the whole heap (a call without contract or without modifies clause): families first
		// read afterwards are not in st.heap, so the per-family check below cannot vouch for them
		u.emit(st, "frame/heap", "false", "a call on this path may change any heap location, but the modifies clause does not say `heap`")
	}
	as := arraySort(SRef, SBool)
	alloc0 := u.fam(entry, "alloc", as)
	for _, key := range sortedKeys(st.heap) {
		cur := st.heap[key]
		u.eng.mu.Lock()
		sort, known := u.eng.famSorts[key]
		u.eng.mu.Unlock()
		if !known {
			continue
		}
		old := u.fam(entry, key, sort)
		if cur == old {
			continue
		}
		if key == "alloc" || strings.HasPrefix(key, "CH:") || key == "G:wg" || key == "G:wgw" {
			continue
		}
		// find matching target
		var tg *target
		for tk, t := range targets {
			if key == tk || strings.HasPrefix(key, tk+".") {
				if tg == nil {
					tg = &target{}
				}
				tg.wildcard = tg.wildcard || t.wildcard
				tg.refs = append(tg.refs, t.refs...)
				tg.ghostIdx = append(tg.ghostIdx, t.ghostIdx...)
			}
		}
		if tg != nil && tg.wildcard {
			continue
		}
		ks, _, isArr := sort.isArray()
		if !isArr {
			u.emit(st, "frame/"+key, app("=", cur, old), "not in modifies: "+key)
			continue
		}
		r := u.fresh("frame_r", ks)
		var hyp []string
		if strings.HasPrefix(key, "G:") {
			if tg != nil {
				for _, ix := range tg.ghostIdx {
					first := ix[0]
					ft := first.T
					if ks == SRef && first.S != SRef {
						ft = oev.box(first).T
					}
					hyp = append(hyp, not(app("=", r, ft)))
				}
			}
		} else {
			if ks == SRef {
				hyp = append(hyp, app("select", alloc0, r))
			}
			if tg != nil {
				for _, ref := range tg.refs {
					hyp = append(hyp, not(app("=", r, ref)))
				}
			}
		}
		u.emit(st, "frame/"+key, implies(and(hyp...), app("=", app("select", cur, r), app("select", old, r))), "only locations in modifies change: "+key)
	}
}

// runFuncArgs executes function-literal arguments inline, in order (callee contract flag runs_funcargs).
func (u *Unit) runFuncArgs(st *State, args []Value, i int, k func(*State)) {
	if i >= len(args) {
		k(st)
		return
	}
	a := args[i]
	if a.K == vFunc && a.Fn != nil {
		u.execLit(st, a.Fn, nil, a.Fn.Pos(), func(s2 *State, _ []Value) {
			u.runFuncArgs(s2, args, i+1, k)
		})
		return
	}
	if a.K == vSlice || a.K == vTuple {
		u.runFuncArgs(st, args, i+1, k)
		return
	}
	u.runFuncArgs(st, args, i+1, k)
}

// listIterLoop: the checked container/list traversal idiom
//
//	for e := l.Front(); e != nil; { ...; e = e.Next() | next := e.Next(); l.Remove(e); e = next }
//
// Contract clause: "loop k: listiter(e, l)". The engine checks the shape, then models the loop as: every value held by l
// is visited exactly once (ghost set `seen` over element values, usable in invariants); on exit every value still in l has
// been seen. Values pushed onto l itself inside the loop would break that: PushBack/PushFront on l is an obligation.
// Uses the ghost map listOf (value -> list) maintained by the trusted container/list contracts.
func (u *Unit) listIterLoop(st *State, x *ast.ForStmt, ls *LoopSpec, id string, c *Ctl, k func(*State)) {
	call, ok := ls.ListIter.Expr.(*ast.CallExpr)
	if !ok || len(call.Args) != 2 {
		u.subsetErr(x.Pos(), "listiter clause must be listiter(elemVar, listExpr)")
		return
	}
	evName := exprString(call.Args[0])
	info := u.pkg.TypesInfo
	// shape
	init, ok := x.Init.(*ast.AssignStmt)
	var frontRecv ast.Expr
	var eObj types.Object
	if ok && init.Tok == token.DEFINE && len(init.Lhs) == 1 && len(init.Rhs) == 1 {
		if id0, ok := init.Lhs[0].(*ast.Ident); ok && id0.Name == evName {
			eObj = info.Defs[id0]
			if ce, ok := init.Rhs[0].(*ast.CallExpr); ok {
				if sel, ok := ce.Fun.(*ast.SelectorExpr); ok && sel.Sel.Name == "Front" && len(ce.Args) == 0 {
					frontRecv = sel.X
				}
			}
		}
	}
	condOK := false
	if be, ok := x.Cond.(*ast.BinaryExpr); ok && be.Op == token.NEQ {
		if a, ok := be.X.(*ast.Ident); ok && a.Name == evName {
			if b, ok := be.Y.(*ast.Ident); ok && b.Name == "nil" {
				condOK = true
			}
		}
	}
	if frontRecv == nil || eObj == nil || !condOK || x.Post != nil {
		u.subsetErr(x.Pos(), "loop %s does not have the list traversal shape `for e := l.Front(); e != nil; {...}`", id)
		return
	}
	if exprString(frontRecv) != exprString(call.Args[1]) {
		u.subsetErr(x.Pos(), "loop %s iterates %s, the contract names %s", id, exprString(frontRecv), exprString(call.Args[1]))
		return
	}
	// every assignment to e in the body is e = e.Next() or e = n with n := e.Next()
	nextVars := map[types.Object]bool{}
	isNextOfE := func(e ast.Expr) bool {
		ce, ok := e.(*ast.CallExpr)
		if !ok || len(ce.Args) != 0 {
			return false
		}
		sel, ok := ce.Fun.(*ast.SelectorExpr)
		if !ok || sel.Sel.Name != "Next" {
			return false
		}
		idr, ok := sel.X.(*ast.Ident)
		return ok && info.ObjectOf(idr) == eObj
	}
	shapeOK := true
	ast.Inspect(x.Body, func(n ast.Node) bool {
		as, ok := n.(*ast.AssignStmt)
		if !ok {
			return true
		}
		for i, l := range as.Lhs {
			idl, ok := l.(*ast.Ident)
			if !ok || i >= len(as.Rhs) {
				continue
			}
			obj := info.ObjectOf(idl)
			if as.Tok == token.DEFINE && isNextOfE(as.Rhs[i]) {
				nextVars[obj] = true
				continue
			}
			if obj == eObj {
				if isNextOfE(as.Rhs[i]) {
					continue
				}
				if idr, ok := as.Rhs[i].(*ast.Ident); ok && nextVars[info.ObjectOf(idr)] {
					continue
				}
				shapeOK = false
			} else if nextVars[obj] {
				shapeOK = false
			}
		}
		return true
	})
	if !shapeOK {
		u.subsetErr(x.Pos(), "loop %s: the element variable is advanced in a way other than e = e.Next() / n := e.Next(); ...; e = n", id)
		return
	}
	g := u.eng.cs.Ghosts["listOf"]
	if g == nil {
		u.subsetErr(x.Pos(), "listiter needs the ghost map listOf (specs/list.spec)")
		return
	}
	bodyPos := x.Body.Lbrace + 1
	ev := u.ev(st, x.Pos())
	lv := ev.expr(frontRecv)
	seenSort := arraySort(SRef, SBool)
	empty := fmt.Sprintf("((as const %s) false)", seenSort)
	mk := func(seen string) map[string]Value { return map[string]Value{"seen": {K: vScalar, T: seen, S: seenSort}} }
	u.checkInvariants(st, ls, id, "inv_entry", bodyPos, mk(empty))
	u.havocLoop(st, x.Body, nil, ls, bodyPos)
	seen := u.fresh("seen", seenSort)
	u.assumeInvariants(st, ls, id, bodyPos, mk(seen))
	u.eng.noteMeta(u, "list traversal idiom: Front/Next visit every value held by the list exactly once, in order (trusted container/list model)")
	if !u.pathBudget() {
		return
	}
	sb := st.clone()
	e := u.fresh("elem", SRef)
	sb.assume(not(app("=", e, "nil")))
	eVal := scalar(e, SRef, eObj.Type())
	u.assumeAllocated(sb, eVal)
	e2 := u.ev(sb, x.Pos())
	v := e2.selectFrom(eVal, "Value", nil)
	lo := e2.ghostVar(g)
	sb.assume(app("=", app("select", lo.T, v.T), lv.T))
	sb.assume(not(app("select", seen, v.T)))
	sb.assume(not(app("=", v.T, "nil")))
	sb.env[eObj] = eVal
	c2 := c.with()
	c2.label = ""
	endIter := func(se *State) {
		u.checkInvariants(se, ls, id, "inv_pres", bodyPos, mk(app("store", seen, v.T, "true")))
	}
	c2.cont[""] = endIter
	c2.brk[""] = k
	if c.label != "" {
		c2.cont[c.label] = endIter
		c2.brk[c.label] = k
	}
	u.iterLists = append(u.iterLists, lv.T)
	u.block(sb, x.Body.List, c2, endIter)
	u.iterLists = u.iterLists[:len(u.iterLists)-1]
	// exit: everything still held by l has been seen
	e3 := u.ev(st, x.Pos())
	lo2 := e3.ghostVar(g)
	st.assume(fmt.Sprintf("(forall ((v Ref)) (! (=> (= (select %s v) %s) (select %s v)) :pattern ((select %s v))))", lo2.T, lv.T, seen, lo2.T))
	delete(st.env, eObj)
	k(st)
}

// publishCheck: an object this function allocated and whose type carries a lock invariant must satisfy that invariant
// when the function returns (from then on other threads may lock it and assume the invariant).
func (u *Unit) publishCheck(st *State, pos token.Pos) {
	var refs []string
	for r := range u.allocT {
		refs = append(refs, r)
	}
	sort.Strings(refs)
	onPath := map[string]bool{}
	for _, f := range st.pc {
		onPath[f] = true
	}
	for _, r := range refs {
		if !onPath[not(app("=", r, "nil"))] {
			continue // allocated on another path of this function
		}
		t := u.allocT[r]
		n, ok := t.(*types.Named)
		if !ok || n.Obj().Pkg() == nil {
			continue
		}
		prefix := n.Obj().Pkg().Path() + "." + n.Obj().Name() + "."
		var keys []string
		for k := range u.eng.cs.LockInvs {
			if strings.HasPrefix(k, prefix) {
				keys = append(keys, k)
			}
		}
		sort.Strings(keys)
		for _, k := range keys {
			li := u.eng.cs.LockInvs[k]
			if st.held[r+"."+li.Field] {
				continue
			}
			if u.c != nil && u.c.Flags["assume_publish:"+n.Obj().Name()+"."+li.Field] {
				// the constructor's body is verified against its contract, but that the new object satisfies this lock
				// invariant when it is handed out is assumed, not proved (stated in the evidence)
				u.assumeNote("the new " + li.TypeName + " built by " + u.name + " is assumed to satisfy the invariant of its lock " + li.Field + " when handed out (assume_publish)")
				continue
			}
			sev := u.specEv(st, pos, "publish "+li.TypeName+"."+li.Field)
			sev.binds[li.Recv] = scalar(r, SRef, types.NewPointer(t))
			sev.pkg = u.eng.pkgs[li.PkgPath]
			for i, inv := range li.Invs {
				g := sev.expr(inv.Expr)
				u.emit(st, fmt.Sprintf("lockinv@publish/%s.%s#%d", li.TypeName, li.Field, i), g.T, inv.Text)
			}
		}
	}
}

// mentionsResult: the modifies target names a result of the function (evaluated once the results exist).
func mentionsResult(c *Contract, e ast.Expr) bool {
	found := false
	ast.Inspect(e, func(n ast.Node) bool {
		if id, ok := n.(*ast.Ident); ok {
			if id.Name == "result" {
				found = true
			}
			for _, r := range c.ResultNames {
				if id.Name == r {
					found = true
				}
			}
		}
		return !found
	})
	return found
}

// iterCountCheck: at a normal return the callback named by the unit's iterates clause has been called exactly count times.
func (u *Unit) iterCountCheck(st *State, pos token.Pos) {
	var fobj types.Object
	if u.sig != nil {
		for i := 0; i < u.sig.Params().Len(); i++ {
			if u.sig.Params().At(i).Name() == u.c.IterFn {
				fobj = u.sig.Params().At(i)
			}
		}
	}
	if fobj == nil {
		u.subsetErr(pos, "iterates names an unknown parameter %s", u.c.IterFn)
		return
	}
	fv, ok := u.entry.env[fobj]
	if !ok || fv.K != vScalar {
		u.subsetErr(pos, "iterates: callback parameter %s has no scalar value", u.c.IterFn)
		return
	}
	as := arraySort(SRef, SInt)
	u.famSort("G:calls", as)
	oev := u.specEv(u.entry.clone(), pos, u.name+" iterates")
	oev.old = u.entry
	n := oev.expr(u.c.IterCount.Expr)
	done := app("-", app("select", u.fam(st, "G:calls", as), fv.T), app("select", u.fam(u.entry, "G:calls", as), fv.T))
	u.emit(st, "iter/count", app("=", done, n.T), u.c.IterFn+" was called exactly "+u.c.IterCount.Text+" times")
}
