package main

import (
	"bytes"
	"context"
	"fmt"
	"os"
	"os/exec"
	"regexp"
	"sort"
	"strings"
	"time"
)

// Sort is an SMT sort name.
type Sort string

const (
	SInt  Sort = "Int"
	SBool Sort = "Bool"
	SReal Sort = "Real"
	SRef  Sort = "Ref"
	SFP   Sort = "(_ FloatingPoint 11 53)"
)

func arraySort(k, v Sort) Sort { return Sort(fmt.Sprintf("(Array %s %s)", k, v)) }

// isArray returns key and value sorts of an array sort.
func (s Sort) isArray() (Sort, Sort, bool) {
	str := string(s)
	if !strings.HasPrefix(str, "(Array ") {
		return "", "", false
	}
	inner := str[len("(Array ") : len(str)-1]
	// split into two s-expressions
	depth := 0
	for i, c := range inner {
		switch c {
		case '(':
			depth++
		case ')':
			depth--
		case ' ':
			if depth == 0 {
				return Sort(inner[:i]), Sort(inner[i+1:]), true
			}
		}
	}
	return "", "", false
}

const goquoDef = `(define-fun goquo ((a Int) (b Int)) Int (ite (>= a 0) (ite (> b 0) (div a b) (- (div a (- b)))) (ite (> b 0) (- (div (- a) b)) (div (- a) (- b)))))`
const goremDef = `(define-fun gorem ((a Int) (b Int)) Int (- a (* b (goquo a b))))`

const prelude = `(declare-sort Ref 0)
(declare-const nil Ref)
` + goquoDef + "\n" + goremDef + `
(define-fun gotrunc ((x Real)) Int (ite (>= x 0.0) (to_int x) (- (to_int (- x)))))
(define-fun rfloor ((x Real)) Real (to_real (to_int x)))
(define-fun rceil ((x Real)) Real (- (to_real (to_int (- x)))))
(define-fun imax ((a Int) (b Int)) Int (ite (>= a b) a b))
(define-fun imin ((a Int) (b Int)) Int (ite (<= a b) a b))
(define-fun rmax ((a Real) (b Real)) Real (ite (>= a b) a b))
(define-fun rmin ((a Real) (b Real)) Real (ite (<= a b) a b))
(declare-fun dyntype (Ref) Int)
(declare-fun strlen (Ref) Int)
(declare-fun box_int (Int) Ref)
(declare-fun unbox_int (Ref) Int)
(declare-fun box_real (Real) Ref)
(declare-fun unbox_real (Ref) Real)
(declare-fun box_bool (Bool) Ref)
(declare-fun unbox_bool (Ref) Bool)
`

// optional axioms: only included when the symbol occurs in the query (keeps most queries quantifier-free)
var optionalAxioms = []struct{ sym, ax string }{
	{"strlen", "(assert (forall ((s Ref)) (! (>= (strlen s) 0) :pattern ((strlen s)))))"},
	{"box_int", "(assert (forall ((i Int)) (! (= (unbox_int (box_int i)) i) :pattern ((box_int i)))))"},
	{"box_real", "(assert (forall ((i Real)) (! (= (unbox_real (box_real i)) i) :pattern ((box_real i)))))"},
	{"box_bool", "(assert (forall ((i Bool)) (! (= (unbox_bool (box_bool i)) i) :pattern ((box_bool i)))))"},
}

// Obligation is one verification condition.
type Obligation struct {
	Name      string
	Property  []string
	Func      string
	Kind      string
	Decls     []string // declarations (shared prefix)
	Hyps      []string
	Goal      string
	PrefixN   int  // for reach checks: number of leading hypotheses that describe the state before the assumption under test
	HasPrefix bool
	ExpectSat bool // vacuity / reachability checks: expected to be satisfiable (goal is "false")
	Note      string
	// results
	Status  string // discharged | failed-model | failed-nomodel | expected-sat-ok | vacuous
	Solver  string
	Ms      int64
	Model   map[string]string
	RawOut  string
	Confirm string
}

func (o *Obligation) smt(produceModel bool) string {
	var b bytes.Buffer
	if produceModel {
		b.WriteString("(set-option :produce-models true)\n")
	}
	b.WriteString("(set-logic ALL)\n")
	b.WriteString(prelude)
	var body bytes.Buffer
	for _, h := range o.Hyps {
		body.WriteString("(assert ")
		body.WriteString(h)
		body.WriteString(")\n")
	}
	bs := body.String()
	goal, skDecls := skolemizeGoal(o.Goal)
	// only the declarations that are used (keeps files small and models readable)
	for _, d := range o.Decls {
		name := declName(d)
		if name == "" || strings.Contains(bs, name) || strings.Contains(o.Goal, name) {
			b.WriteString(d)
			b.WriteByte('\n')
		}
	}
	for _, ax := range optionalAxioms {
		if strings.Contains(bs, ax.sym) || strings.Contains(o.Goal, ax.sym) {
			b.WriteString(ax.ax)
			b.WriteByte('\n')
		}
	}
	for _, d := range skDecls {
		b.WriteString(d)
		b.WriteByte('\n')
	}
	b.WriteString(bs)
	b.WriteString("(assert (not ")
	b.WriteString(goal)
	b.WriteString("))\n(check-sat)\n")
	if produceModel {
		b.WriteString("(get-model)\n")
	}
	return b.String()
}

type solverSpec struct {
	name string
	args func(file string, timeoutMs int) []string
}

var solvers = []solverSpec{
	{"z3-new", func(f string, t int) []string { return []string{"z3-new", fmt.Sprintf("-t:%d", t), f} }},
	{"z3", func(f string, t int) []string { return []string{"z3", fmt.Sprintf("-t:%d", t), f} }},
	{"cvc5", func(f string, t int) []string {
		return []string{"cvc5", "--produce-models", fmt.Sprintf("--tlimit=%d", t), f}
	}},
}

type solverResult struct {
	solver string
	res    string // sat unsat unknown timeout error
	out    string
	ms     int64
}

func runSolver(sp solverSpec, file string, timeoutMs int) solverResult {
	ctx, cancel := context.WithTimeout(context.Background(), time.Duration(timeoutMs+2000)*time.Millisecond)
	defer cancel()
	args := sp.args(file, timeoutMs)
	cmd := exec.CommandContext(ctx, args[0], args[1:]...)
	var out bytes.Buffer
	cmd.Stdout = &out
	cmd.Stderr = &out
	t0 := time.Now()
	_ = cmd.Run()
	ms := time.Since(t0).Milliseconds()
	s := out.String()
	first := strings.TrimSpace(strings.SplitN(strings.TrimSpace(s), "\n", 2)[0])
	res := "error"
	switch {
	case first == "unsat":
		res = "unsat"
	case first == "sat":
		res = "sat"
	case first == "unknown" || first == "timeout" || strings.Contains(first, "interrupted") || strings.Contains(first, "resource limit"):
		res = "unknown"
	case ctx.Err() != nil:
		res = "unknown"
	}
	return solverResult{sp.name, res, s, ms}
}

// decide runs the portfolio on one obligation.
func decide(o *Obligation, tmpdir string, timeoutMs int, confirm bool) {
	file := fmt.Sprintf("%s/%s.smt2", tmpdir, sanitize(o.Name))
	hasQuant := false
	for _, h := range o.Hyps {
		if strings.Contains(h, "(forall ") || strings.Contains(h, "(exists ") {
			hasQuant = true
			break
		}
	}
	if strings.Contains(o.Goal, "(forall ") || strings.Contains(o.Goal, "(exists ") {
		hasQuant = true
	}
	_ = hasQuant
	// an operand that vanished while a formula was put together (two blanks after an operator, a blank before the closing
	// parenthesis) must never be read by a solver as a shorter, weaker formula
	for _, f := range append([]string{o.Goal}, o.Hyps...) {
		if malformedTerm.MatchString(f) {
			o.Status = "failed-nomodel"
			o.RawOut = "malformed SMT term (empty operand) in: " + f
			return
		}
	}
	if err := os.WriteFile(file, []byte(o.smt(true)), 0o644); err != nil {
		o.Status = "failed-nomodel"
		o.RawOut = err.Error()
		return
	}
	var all []solverResult
	// stage 0: Go's / and % as uninterpreted functions (a weaker theory: unsat there is unsat with the definitions);
	// many structural obligations only need congruence and the nonlinear definitions make the solvers give up
	if !o.ExpectSat {
		txt := o.smt(false)
		if strings.Contains(txt, "(goquo ") || strings.Contains(txt, "(gorem ") {
			uf := strings.Replace(txt, goquoDef, "(declare-fun goquo (Int Int) Int)", 1)
			uf = strings.Replace(uf, goremDef, "(declare-fun gorem (Int Int) Int)", 1)
			uff := file + ".uf.smt2"
			os.WriteFile(uff, []byte(uf), 0o644)
			r0 := runSolver(solvers[0], uff, 2500)
			if r0.res == "unsat" {
				o.Status = "discharged"
				o.Solver = "z3-new(div/mod uninterpreted)"
				o.Ms = r0.ms
				return
			}
		}
	}
	// stage 1: z3-new with a short budget, stage 2: race all with the full budget
	stage1 := timeoutMs
	if stage1 > 4000 {
		stage1 = 4000
	}
	if o.ExpectSat {
		stage1 = 1500
	}
	r := runSolver(solvers[0], file, stage1)
	all = append(all, r)
	if r.res != "unsat" && r.res != "sat" && !o.ExpectSat {
		ch := make(chan solverResult, len(solvers))
		for _, sp := range solvers {
			sp := sp
			go func() { ch <- runSolver(sp, file, timeoutMs) }()
		}
		for range solvers {
			rr := <-ch
			all = append(all, rr)
			if rr.res == "unsat" || rr.res == "sat" {
				r = rr
				break
			}
		}
	}
	var total int64
	for _, a := range all {
		total += a.ms
	}
	o.Solver = r.solver
	o.Ms = r.ms
	if o.ExpectSat {
		// goal is "false": hypotheses must be satisfiable (sat or unknown accepted; unsat = vacuous)
		if r.res == "unsat" && o.HasPrefix {
			// dead path before the assumption already? then nothing is wrong
			p := *o
			p.Hyps = o.Hyps[:o.PrefixN]
			pf := file + ".prefix.smt2"
			os.WriteFile(pf, []byte(p.smt(false)), 0o644)
			pr := runSolver(solvers[0], pf, 3000)
			if pr.res == "unsat" {
				o.Status = "expected-sat-ok"
				return
			}
		}
		if r.res == "unsat" {
			o.Status = "vacuous"
			o.RawOut = r.out
		} else {
			o.Status = "expected-sat-ok"
		}
		return
	}
	switch r.res {
	case "unsat":
		o.Status = "discharged"
		if confirm {
			for _, sp := range solvers {
				if sp.name == r.solver {
					continue
				}
				c := runSolver(sp, file, timeoutMs)
				if c.res == "unsat" {
					o.Confirm = sp.name
					break
				}
				if c.res == "sat" {
					o.Confirm = "DISAGREE:" + sp.name
					break
				}
			}
		}
	case "sat":
		o.Status = "failed-model"
		o.Model = parseModel(r.out)
		o.RawOut = r.out
	default:
		o.Status = "failed-nomodel"
		var sb strings.Builder
		for _, a := range all {
			fmt.Fprintf(&sb, "[%s %s %dms] %s\n", a.solver, a.res, a.ms, firstLines(a.out, 3))
		}
		o.RawOut = sb.String()
	}
}

// declName extracts the symbol declared by a (declare-const|declare-fun name ...) line.
func declName(d string) string {
	for _, p := range []string{"(declare-const ", "(declare-fun "} {
		if strings.HasPrefix(d, p) {
			rest := d[len(p):]
			if strings.HasPrefix(rest, "|") {
				if j := strings.Index(rest[1:], "|"); j >= 0 {
					return rest[:j+2]
				}
			}
			if j := strings.IndexAny(rest, " )"); j >= 0 {
				return rest[:j]
			}
		}
	}
	return ""
}

func firstLines(s string, n int) string {
	ls := strings.Split(strings.TrimSpace(s), "\n")
	if len(ls) > n {
		ls = ls[:n]
	}
	return strings.Join(ls, " | ")
}

var sanitizeRe = regexp.MustCompile(`[^A-Za-z0-9_.#@-]+`)

func sanitize(s string) string { return sanitizeRe.ReplaceAllString(s, "_") }

// parseModel extracts (define-fun name () Sort value) entries for scalar constants.
func parseModel(out string) map[string]string {
	m := map[string]string{}
	toks := tokenize(out)
	// find sequences: ( define-fun NAME ( ) SORT VALUE )
	for i := 0; i+4 < len(toks); i++ {
		if toks[i] == "(" && toks[i+1] == "define-fun" && toks[i+3] == "(" && toks[i+4] == ")" {
			name := toks[i+2]
			j := i + 5
			// sort
			_, j = readSexp(toks, j)
			val, j2 := readSexp(toks, j)
			_ = j2
			m[strings.Trim(name, "|")] = val
		}
	}
	return m
}

func tokenize(s string) []string {
	var toks []string
	i := 0
	for i < len(s) {
		c := s[i]
		switch {
		case c == '(' || c == ')':
			toks = append(toks, string(c))
			i++
		case c == ' ' || c == '\n' || c == '\t' || c == '\r':
			i++
		case c == ';':
			for i < len(s) && s[i] != '\n' {
				i++
			}
		case c == '|':
			j := i + 1
			for j < len(s) && s[j] != '|' {
				j++
			}
			toks = append(toks, s[i:j+1])
			i = j + 1
		case c == '"':
			j := i + 1
			for j < len(s) && s[j] != '"' {
				j++
			}
			toks = append(toks, s[i:j+1])
			i = j + 1
		default:
			j := i
			for j < len(s) && !strings.ContainsRune("() \n\t\r", rune(s[j])) {
				j++
			}
			toks = append(toks, s[i:j])
			i = j
		}
	}
	return toks
}

func readSexp(toks []string, i int) (string, int) {
	if i >= len(toks) {
		return "", i
	}
	if toks[i] != "(" {
		return toks[i], i + 1
	}
	depth := 0
	var parts []string
	for j := i; j < len(toks); j++ {
		if toks[j] == "(" {
			depth++
		} else if toks[j] == ")" {
			depth--
		}
		parts = append(parts, toks[j])
		if depth == 0 {
			s := strings.Join(parts, " ")
			s = strings.ReplaceAll(s, "( ", "(")
			s = strings.ReplaceAll(s, " )", ")")
			return s, j + 1
		}
	}
	return strings.Join(parts, " "), len(toks)
}

// modelSummary gives a compact, sorted view of the scalar model restricted to interesting names.
func modelSummary(m map[string]string, max int) []string {
	var ks []string
	for k := range m {
		ks = append(ks, k)
	}
	sort.Strings(ks)
	var out []string
	for _, k := range ks {
		v := m[k]
		if len(v) > 60 {
			continue
		}
		out = append(out, k+"="+v)
		if len(out) >= max {
			break
		}
	}
	return out
}

// ---- term construction helpers ----

var malformedTerm = regexp.MustCompile(`\([^\s()|"]+  |[^\s(] \)|GZV_EMPTY_TERM`)

func app(op string, args ...string) string {
	if len(args) == 0 {
		return op
	}
	for i, a := range args {
		if a == "" {
			// a value without a term (tuple, unsupported expression) used as an operand: never let it vanish from the
			// formula (z3 reads a unary (>= x) as true) - the undeclared symbol makes every solver reject the query
			cp := append([]string(nil), args...)
			cp[i] = "GZV_EMPTY_TERM"
			args = cp
		}
	}
	return "(" + op + " " + strings.Join(args, " ") + ")"
}

func and(args ...string) string {
	var xs []string
	for _, a := range args {
		if a == "true" || a == "" {
			continue
		}
		if a == "false" {
			return "false"
		}
		xs = append(xs, a)
	}
	switch len(xs) {
	case 0:
		return "true"
	case 1:
		return xs[0]
	}
	return app("and", xs...)
}

func or(args ...string) string {
	var xs []string
	for _, a := range args {
		if a == "false" || a == "" {
			continue
		}
		if a == "true" {
			return "true"
		}
		xs = append(xs, a)
	}
	switch len(xs) {
	case 0:
		return "false"
	case 1:
		return xs[0]
	}
	return app("or", xs...)
}

func not(a string) string {
	switch a {
	case "true":
		return "false"
	case "false":
		return "true"
	}
	if strings.HasPrefix(a, "(not ") {
		return a[5 : len(a)-1]
	}
	return app("not", a)
}

func implies(a, b string) string {
	if a == "true" {
		return b
	}
	if a == "false" || b == "true" {
		return "true"
	}
	return app("=>", a, b)
}

func intLit(n int64) string {
	if n < 0 {
		return fmt.Sprintf("(- %d)", -n)
	}
	return fmt.Sprintf("%d", n)
}
