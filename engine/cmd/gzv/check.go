package main

import (
	"fmt"
	"os"
	"path/filepath"
	"regexp"
	"sort"
	"strings"
	"time"
)

type checkResult struct {
	obligations int
	discharged  int
	violations  int
	known       int
	broken      bool
}

// report decides the verdict, prints KNOWN-FINDING / VIOLATION lines and writes evidence.
func (e *Engine) report(prop, tier string, seed int, us []*Unit, luaUnits []string, all []*Obligation, t0 time.Time, verbose, write bool) checkResult {
	var res checkResult
	known, err := loadKnownFindings(filepath.Join(e.verif, "known_findings.json"))
	if err != nil {
		fmt.Println("known_findings.json:", err)
		res.broken = true
	}
	var reports []oblReport
	var samples []any
	vacuityN, vacuityOK := 0, 0
	var solverMs int64
	bySolver := map[string]int{}
	knownPrinted := map[string]bool{}
	var violLines []string
	outDir := filepath.Join(e.verif, "out", "replay", prop)
	os.RemoveAll(outDir)
	for _, o := range all {
		solverMs += o.Ms
		if o.ExpectSat {
			vacuityN++
			if o.Status == "expected-sat-ok" {
				vacuityOK++
				continue
			}
		}
		ok := o.Status == "discharged"
		if !o.ExpectSat {
			res.obligations++
		}
		if ok {
			res.discharged++
			bySolver[o.Solver]++
			reports = append(reports, oblReport{Name: o.Name, Status: o.Status, Solver: o.Solver, Ms: o.Ms, Confirmed: o.Confirm, Clause: o.Note})
			if len(samples) < 3 && !strings.Contains(o.Kind, "divzero") && !strings.Contains(o.Kind, "bounds") {
				samples = append(samples, map[string]any{"obligation": o.Name, "clause": o.Note, "goal_smt": trunc(o.Goal, 600), "hypotheses": len(o.Hyps), "solver": o.Solver, "ms": o.Ms})
			}
			if verbose {
				fmt.Printf("%-16s %-80s %s %dms\n", o.Status, o.Name, o.Solver, o.Ms)
			}
			continue
		}
		// failed
		isKnown := false
		for i := range known {
			k := &known[i]
			if k.Property == prop && k.matches(o) {
				isKnown = true
				if !knownPrinted[k.Obligation+k.What] {
					knownPrinted[k.Obligation+k.What] = true
					fmt.Printf("KNOWN-FINDING: property=%s %s [%s]\n", prop, k.What, k.Obligation)
				}
				break
			}
		}
		reports = append(reports, oblReport{Name: o.Name, Status: o.Status, Solver: o.Solver, Ms: o.Ms, Clause: o.Note})
		if isKnown {
			res.known++
			res.obligations--
			continue
		}
		res.violations++
		fmt.Printf("%-16s %-80s %s %dms\n", o.Status, o.Name, o.Solver, o.Ms)
		fmt.Printf("    clause: %s\n", o.Note)
		if o.Model != nil {
			fmt.Printf("    model: %v\n", modelSummary(o.Model, 30))
		} else if o.RawOut != "" {
			fmt.Printf("    out: %s\n", trunc(o.RawOut, 800))
		}
		rf := replayFile{Property: prop, Obligation: o.Name, Status: o.Status, Clause: o.Note, Goal: trunc(o.Goal, 4000), Solver: o.Solver, Model: o.Model,
			ModelBrief: modelSummary(o.Model, 60), SolverOut: trunc(o.RawOut, 8000)}
		path := filepath.Join(outDir, sanitize(o.Name)+".json")
		if o.Status == "vacuous" {
			rf.Explanation = "the preconditions/invariants assumed for this unit are contradictory: every obligation of the unit would hold vacuously"
		} else if o.Kind == "target" || o.Kind == "subset" {
			rf.Explanation = "the code named by the contract is missing or left the verifiable subset; the property can no longer be shown to hold for it"
		} else if o.Model != nil {
			rf.Explanation = "the solver found a counterexample to this obligation (model attached)"
		} else {
			rf.Explanation = "no solver could discharge this obligation within the time limit (it is discharged on the unchanged tree)"
		}
		{
			smtPath := filepath.Join(outDir, sanitize(o.Name)+".smt2")
			os.MkdirAll(outDir, 0o755)
			if o.Kind != "target" && o.Kind != "subset" {
				os.WriteFile(smtPath, []byte(o.smt(true)), 0o644)
				rf.SMTFile = smtPath
			}
			if o.Status != "vacuous" && !e.noReplay {
				if rr := e.tryReplay(o, outDir); rr != nil {
					rf.Replay = rr
					rf.FailingInputFound = rr.Reproduced
				}
			}
			writeJSON(path, rf)
		}
		line := fmt.Sprintf("VIOLATION property=%s replay=%s", prop, path)
		if !rf.FailingInputFound {
			line += " no-failing-input-found"
		}
		violLines = append(violLines, line)
	}
	// bounded stand-ins (labelled bounded in the evidence, never counted as discharged obligations)
	var bounded []BoundedResult
	if !e.noReplay || e.forceBounded {
		bounded = e.runBounded(prop, tier)
	}
	for bi := range bounded {
		b := &bounded[bi]
		if b.Passed {
			fmt.Printf("bounded-ok       %s (%s) %s %.1fs\n", b.Name, b.Bound, b.Stats, b.WallS)
			continue
		}
		// a listed known finding, identified by the failing input the stand-in reports
		isKnown := false
		for i := range known {
			k := &known[i]
			if k.Property != prop || k.Status != "known" || k.Obligation != "bounded/"+b.Name || k.InputRegex == "" || b.replay == nil || !b.replay.Reproduced {
				continue
			}
			if re, err := regexp.Compile(k.InputRegex); err == nil && re.MatchString(b.replay.Input) {
				isKnown = true
				if !knownPrinted[k.Obligation+k.What] {
					knownPrinted[k.Obligation+k.What] = true
					fmt.Printf("KNOWN-FINDING: property=%s %s [%s: %s]\n", prop, k.What, k.Obligation, trunc(b.replay.Input, 300))
				}
				break
			}
		}
		if isKnown {
			res.known++
			b.Known = true
			continue
		}
		res.violations++
		path := filepath.Join(outDir, "bounded_"+sanitize(b.Name)+".json")
		rf := replayFile{Property: prop, Obligation: "bounded/" + b.Name, Status: "bounded-check-failed", Clause: b.Covers + " — " + b.Bound,
			Replay: b.replay, FailingInputFound: b.replay != nil && b.replay.Reproduced,
			Explanation: "the bounded stand-in for functions outside the contracts' reach found an input on which the real code disagrees with the reference written from the property statement"}
		writeJSON(path, rf)
		fmt.Printf("%-16s %-80s\n", "bounded-failed", b.Name)
		if b.replay != nil {
			fmt.Printf("    input: %s\n", trunc(b.replay.Input, 600))
		}
		line := fmt.Sprintf("VIOLATION property=%s replay=%s", prop, path)
		if !rf.FailingInputFound {
			line += " no-failing-input-found"
		}
		violLines = append(violLines, line)
	}
	for _, m := range e.cs.Errors {
		fmt.Println("CONTRACT ERROR:", m)
		res.broken = true
	}
	for _, m := range e.specErrs {
		fmt.Println("SPEC ERROR:", m)
		res.broken = true
	}
	if res.obligations == 0 && res.known == 0 {
		fmt.Println("no obligations generated for", prop)
		res.broken = true
	}
	sort.Strings(violLines)
	for i, l := range violLines {
		if i >= 12 {
			fmt.Printf("(%d more violations not listed)\n", len(violLines)-i)
			break
		}
		fmt.Println(l)
	}
	if res.broken && res.violations == 0 {
		path := filepath.Join(outDir, "engine-error.json")
		{
			writeJSON(path, map[string]any{"property": prop, "contract_errors": e.cs.Errors, "spec_errors": e.specErrs,
				"explanation": "the contracts could not be interpreted against the current source (a name they use is gone or changed type); the property can no longer be shown to hold"})
		}
		fmt.Printf("VIOLATION property=%s replay=%s no-failing-input-found\n", prop, path)
	}
	if !write {
		return res
	}
	// evidence
	var funcs []string
	trusted := map[string]bool{}
	assumptions := map[string]bool{}
	uncontracted := map[string]bool{}
	for _, u := range us {
		funcs = append(funcs, u.name)
		for a := range u.assumptions {
			assumptions[a] = true
		}
		for k := range u.uncontracted {
			uncontracted[k] = true
		}
		if u.c != nil {
			if u.c.Flags["float_real"] {
				assumptions["float64 arithmetic is modelled over the reals in "+u.name] = true
			}
			if !u.overflow {
				assumptions["machine integers are treated as mathematical integers (no overflow obligations) except in functions marked overflow checked"] = true
			}
		}
		e.mu.Lock()
		for t := range e.trusted[u.name] {
			trusted[t] = true
		}
		for t := range e.meta[u.name] {
			trusted[t] = true
		}
		e.mu.Unlock()
	}
	funcs = append(funcs, luaUnits...)
	for _, t := range e.luaTrusted {
		trusted[t] = true
	}
	trusted["SMT solvers z3 5.1.0 (z3-new), z3 4.8.12, cvc5 1.0.x and the gzv VC generator itself"] = true
	for k := range uncontracted {
		assumptions["call to a function without contract (heap forgotten, assumed not to panic): "+shortKey(k)] = true
	}
	for _, d := range e.cs.Dropped {
		_ = d
	}
	if len(e.cs.Dropped) > 0 {
		assumptions["calls with these prefixes are dropped as no-ops (logging, metrics, tracing, spawn helpers): "+strings.Join(e.cs.Dropped, " ")] = true
	}
	ev := Evidence{PropertyID: prop, Tier: tier, Seed: seed, Level: "proof", WallS: time.Since(t0).Seconds(), Violations: res.violations,
		Assumptions: uniqSorted(assumptions)}
	sort.Strings(funcs)
	if len(samples) == 0 {
		samples = append(samples, "none")
	}
	ev.Coverage = map[string]any{
		"obligations":              res.obligations,
		"discharged":               res.discharged,
		"checker_cmd":              fmt.Sprintf("/verif/bin/gzv check -property %s -tier %s", prop, tier),
		"trusted_base":             uniqSorted(trusted),
		"functions_under_contract": funcs,
		"functions_count":          len(funcs),
		"per_obligation":           reports,
		"discharged_by_solver":     bySolver,
		"solver_ms_total":          solverMs,
		"vacuity_checks":           vacuityN,
		"vacuity_checks_ok":        vacuityOK,
		"known_findings_hit":       res.known,
		"samples":                  samples,
		"not_decided":              e.notDecided[prop],
		"bounded":                  boundedEvidence(bounded),
		"explanation":              "every obligation is regenerated from /repo's current source (go/packages, -tags verif) by symbolic execution of the real function bodies against the //@ contracts, then decided by an SMT portfolio; discharged == obligations means all were proved",
	}
	if err := writeJSON(filepath.Join(e.verif, "evidence", prop+".json"), ev); err != nil {
		fmt.Println("evidence:", err)
		res.broken = true
	}
	return res
}

func boundedEvidence(bs []BoundedResult) []any {
	out := []any{}
	for _, b := range bs {
		out = append(out, map[string]any{"name": b.Name, "covers": b.Covers, "bound": b.Bound, "cmd": b.Cmd, "passed": b.Passed, "known_finding": b.Known, "stats": b.Stats, "wall_s": b.WallS,
			"note": "BOUNDED stand-in: executes the real code on every input within the bound and compares with the reference from the property statement; not a proof, not counted in discharged"})
	}
	return out
}
