package main

import (
	"encoding/json"
	"fmt"
	"os"
	"path/filepath"
	"regexp"
	"sort"
	"strconv"
	"strings"
)

// KnownFinding is one entry of /verif/known_findings.json (committed, never written at run time).
type KnownFinding struct {
	Property   string            `json:"property"`
	Obligation string            `json:"obligation"` // obligation name without the ~pN path suffix
	Status     string            `json:"status"`     // "known" | "fixed"
	What       string            `json:"what"`
	Commit     string            `json:"commit,omitempty"`
	Match      []ModelPredicate  `json:"match,omitempty"`
	Extra      map[string]string `json:"extra,omitempty"`
	InputRegex string            `json:"input_regex,omitempty"` // for bounded stand-ins: the failing input the finding is identified by
}

// ModelPredicate restricts a known finding to counterexamples whose model satisfies it.
type ModelPredicate struct {
	Var   string `json:"var"`   // regexp on model variable names
	Op    string `json:"op"`    // == != < <= > >=
	Value string `json:"value"` // integer literal
}

func loadKnownFindings(path string) ([]KnownFinding, error) {
	b, err := os.ReadFile(path)
	if err != nil {
		if os.IsNotExist(err) {
			return nil, nil
		}
		return nil, err
	}
	var kf struct {
		Findings []KnownFinding `json:"findings"`
	}
	if err := json.Unmarshal(b, &kf); err != nil {
		return nil, err
	}
	return kf.Findings, nil
}

var pathSuffixRe = regexp.MustCompile(`~p\d+`)

func baseName(obl string) string { return pathSuffixRe.ReplaceAllString(obl, "") }

func smtInt(v string) (int64, bool) {
	v = strings.TrimSpace(v)
	if strings.HasPrefix(v, "(- ") && strings.HasSuffix(v, ")") {
		n, err := strconv.ParseInt(strings.TrimSpace(v[3:len(v)-1]), 10, 64)
		return -n, err == nil
	}
	n, err := strconv.ParseInt(v, 10, 64)
	return n, err == nil
}

func (k *KnownFinding) matches(o *Obligation) bool {
	if k.Status != "known" || baseName(o.Name) != k.Obligation {
		return false
	}
	for _, p := range k.Match {
		if o.Model == nil {
			return false
		}
		re, err := regexp.Compile(p.Var)
		if err != nil {
			return false
		}
		want, _ := strconv.ParseInt(p.Value, 10, 64)
		found := false
		for name, val := range o.Model {
			if !re.MatchString(name) {
				continue
			}
			n, ok := smtInt(val)
			if !ok {
				continue
			}
			found = true
			okp := false
			switch p.Op {
			case "==":
				okp = n == want
			case "!=":
				okp = n != want
			case "<":
				okp = n < want
			case "<=":
				okp = n <= want
			case ">":
				okp = n > want
			case ">=":
				okp = n >= want
			}
			if !okp {
				return false
			}
		}
		if !found {
			return false
		}
	}
	return true
}

type oblReport struct {
	Name      string `json:"name"`
	Status    string `json:"status"`
	Solver    string `json:"solver,omitempty"`
	Ms        int64  `json:"ms"`
	Confirmed string `json:"confirmed_by,omitempty"`
	Clause    string `json:"clause,omitempty"`
}

type Evidence struct {
	PropertyID  string         `json:"property_id"`
	Tier        string         `json:"tier"`
	Seed        int            `json:"seed"`
	Level       string         `json:"level"`
	Coverage    map[string]any `json:"coverage"`
	Assumptions []string       `json:"assumptions"`
	WallS       float64        `json:"wall_s"`
	Violations  int            `json:"violations"`
}

type replayFile struct {
	Property          string            `json:"property"`
	Obligation        string            `json:"obligation"`
	Status            string            `json:"status"`
	Clause            string            `json:"clause"`
	Goal              string            `json:"goal"`
	Solver            string            `json:"solver"`
	Model             map[string]string `json:"model,omitempty"`
	ModelBrief        []string          `json:"model_brief,omitempty"`
	SolverOut         string            `json:"solver_output"`
	SMTFile           string            `json:"smt_file"`
	Replay            *ReplayResult     `json:"replay,omitempty"`
	FailingInputFound bool              `json:"failing_input_found"`
	Explanation       string            `json:"explanation"`
}

func writeJSON(path string, v any) error {
	if err := os.MkdirAll(filepath.Dir(path), 0o755); err != nil {
		return err
	}
	b, err := json.MarshalIndent(v, "", " ")
	if err != nil {
		return err
	}
	return os.WriteFile(path, append(b, '\n'), 0o644)
}

func uniqSorted(m map[string]bool) []string {
	var out []string
	for k := range m {
		out = append(out, k)
	}
	sort.Strings(out)
	return out
}

func fmtDur(ms int64) string { return fmt.Sprintf("%.2fs", float64(ms)/1000) }
