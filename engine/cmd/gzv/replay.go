package main

// ReplayResult is the outcome of replaying a counterexample on the real code.
type ReplayResult struct {
	Driver     string `json:"driver"`
	Cmd        string `json:"cmd"`
	Test       string `json:"test_source"`
	Output     string `json:"output"`
	Reproduced bool   `json:"reproduced"`
}

func (e *Engine) tryReplay(o *Obligation, outDir string) *ReplayResult {
	return nil
}
