package main

import (
	"bytes"
	"context"
	"encoding/json"
	"fmt"
	"os"
	"os/exec"
	"path/filepath"
	"regexp"
	"sort"
	"strings"
	"time"
)

// Replay of counterexamples on the real code.
//
// A replay driver is a Go test kept under /verif/replay/<file> that states, in executable form, the clause of the
// property the obligations of one function (or one data structure) carry, on concrete inputs. When an obligation of that
// function fails, the values of the terms the driver asks for are read from the solver's model (get-value), handed to the
// test through GZV_* environment variables, and the test is injected into the real package with `go test -overlay`
// (nothing is written into /repo). The test tries the model's input first and then a small neighbourhood grid; it prints
// "GZV-REPRODUCED <input> <observed> <expected>" and fails when the real code misbehaves. Only then does the VIOLATION
// line drop the words no-failing-input-found.

// ReplayResult is the outcome of replaying a counterexample on the real code.
type ReplayResult struct {
	Driver     string            `json:"driver"`
	PkgDir     string            `json:"pkg_dir"`
	TestFunc   string            `json:"test_func"`
	Env        map[string]string `json:"env"`
	Cmd        string            `json:"cmd"`
	Test       string            `json:"test_source"`
	Output     string            `json:"output"`
	Reproduced bool              `json:"reproduced"`
	Input      string            `json:"failing_input,omitempty"`
}

// replayDriver is one entry of /verif/replay/drivers.json.
type replayDriver struct {
	Match   string            `json:"match"`   // regexp on the obligation name
	PkgDir  string            `json:"pkg_dir"` // package directory (relative to the repo root) the test is injected into
	File    string            `json:"file"`    // test source under /verif/replay/
	Test    string            `json:"test"`    // test function
	Clock   bool              `json:"clock"`   // overlay core/timex/relativetime.go with the virtual clock
	Values  map[string]string `json:"values"`  // ENV name -> term pattern (see termFor)
	Timeout int               `json:"timeout_s"`
	Extra   map[string]string `json:"extra"` // further overlay files: path relative to the repo root -> file under /verif/replay/
	// a driver can also stand in as a BOUNDED check of functions the contracts do not reach (never counted as proved):
	BoundedFor string `json:"bounded_for"` // property id: the driver is run on every check of that property
	Covers     string `json:"covers"`      // the functions it stands in for
	Bound      string `json:"bound"`       // the bound, in words
}

// BoundedResult is the outcome of one bounded stand-in.
type BoundedResult struct {
	Name   string  `json:"name"`
	Covers string  `json:"covers"`
	Bound  string  `json:"bound"`
	Cmd    string  `json:"cmd"`
	Passed bool    `json:"passed"`
	Known  bool    `json:"known_finding"`
	Stats  string  `json:"stats"`
	WallS  float64 `json:"wall_s"`
	replay *ReplayResult
}

// runBounded runs the bounded stand-ins registered for a property.
func (e *Engine) runBounded(prop, tier string) []BoundedResult {
	if e.drivers == nil {
		e.drivers = loadDrivers(e.verif)
	}
	var out []BoundedResult
	seen := map[string]bool{}
	for i := range e.drivers {
		d := &e.drivers[i]
		if seen[d.File+"|"+d.Test] {
			continue
		}
		if d.BoundedFor != prop {
			// thorough tier: every replay driver registered for a unit of this property is also run as a bounded
			// cross-check of the real code (a driver that fails here has a concrete failing input)
			if tier != "thorough" || d.BoundedFor != "" || !e.driverServes(d, prop) {
				continue
			}
		}
		seen[d.File+"|"+d.Test] = true
		tmp, err := os.MkdirTemp("", "gzv-bounded-")
		if err != nil {
			continue
		}
		t0 := time.Now()
		rr := runDriver(e.repo, e.verif, d, map[string]string{"TIER": tier}, tmp)
		os.RemoveAll(tmp)
		br := BoundedResult{Name: d.Test, Covers: d.Covers, Bound: d.Bound, Cmd: rr.Cmd, WallS: time.Since(t0).Seconds(), replay: rr}
		if d.BoundedFor != prop {
			br.Covers = "cross-check (thorough tier): the replay driver of these units run on the current tree without model values"
			br.Bound = "the driver's fixed grids and fixed-seed histories (see its source under /verif/replay/" + d.File + ")"
		}
		for _, l := range strings.Split(rr.Output, "\n") {
			if i := strings.Index(l, "GZV-BOUNDED"); i >= 0 {
				br.Stats = strings.TrimSpace(l[i+len("GZV-BOUNDED"):])
			}
		}
		br.Passed = !rr.Reproduced && strings.Contains(rr.Output, "\nok ") || (!rr.Reproduced && strings.Contains(rr.Output, "--- PASS"))
		out = append(out, br)
	}
	return out
}


func loadDrivers(verif string) []replayDriver {
	b, err := os.ReadFile(filepath.Join(verif, "replay", "drivers.json"))
	if err != nil {
		return nil
	}
	var d struct {
		Drivers []replayDriver `json:"drivers"`
	}
	if json.Unmarshal(b, &d) != nil {
		return nil
	}
	return d.Drivers
}

func findDriver(ds []replayDriver, obl string) *replayDriver {
	for i := range ds {
		if re, err := regexp.Compile(ds[i].Match); err == nil && re.MatchString(obl) {
			return &ds[i]
		}
	}
	return nil
}

// declared symbols of an obligation, by SMT name
func declaredNames(o *Obligation) []string {
	var out []string
	for _, d := range o.Decls {
		if n := declName(d); n != "" {
			out = append(out, n)
		}
	}
	sort.Strings(out)
	return out
}

func unbar(s string) string { return strings.Trim(s, "|") }

// firstDecl returns the SMT symbol of the earliest version of a Go variable / heap array whose base name is `base`:
// variables are declared as base!N, heap arrays as H:type.field@N.
func firstDecl(names []string, base string, sep string) string {
	best, bestN := "", -1
	for _, n := range names {
		u := unbar(n)
		if !strings.HasPrefix(u, base+sep) {
			continue
		}
		var k int
		if _, err := fmt.Sscanf(u[len(base)+len(sep):], "%d", &k); err != nil {
			continue
		}
		if fmt.Sprintf("%s%s%d", base, sep, k) != u {
			continue
		}
		if bestN < 0 || k < bestN {
			best, bestN = n, k
		}
	}
	return best
}

// termFor turns a driver value pattern into an SMT term over the obligation's symbols:
//
//	var x                 the entry value of parameter/local x           (x!N, smallest N)
//	field x T.f           field f of the object x points to, entry heap  (select H:T.f@0 x!N)
//	sym name              the symbol itself (ghost state, now, ...)
func termFor(names []string, pat string) string {
	f := strings.Fields(pat)
	if len(f) == 0 {
		return ""
	}
	switch f[0] {
	case "var":
		if len(f) == 2 {
			return firstDecl(names, f[1], "!")
		}
	case "field":
		if len(f) == 3 {
			v := firstDecl(names, f[1], "!")
			h := firstDecl(names, "H:"+f[2], "@")
			if v != "" && h != "" {
				return "(select " + h + " " + v + ")"
			}
		}
	case "sym":
		if len(f) == 2 {
			for _, n := range names {
				if unbar(n) == f[1] {
					return n
				}
			}
		}
	}
	return ""
}

// smtScalar normalises an SMT value to a Go-parsable literal: (- 5) -> -5, (/ 1.0 2.0) -> 0.5, true/false kept.
func smtScalar(v string) string {
	v = strings.TrimSpace(v)
	if strings.HasPrefix(v, "(- ") && strings.HasSuffix(v, ")") {
		in := smtScalar(v[3 : len(v)-1])
		if strings.HasPrefix(in, "-") {
			return in[1:]
		}
		return "-" + in
	}
	if strings.HasPrefix(v, "(/ ") && strings.HasSuffix(v, ")") {
		parts := splitTopSp(v[3 : len(v)-1])
		if len(parts) == 2 {
			var a, b float64
			fmt.Sscan(smtScalar(parts[0]), &a)
			fmt.Sscan(smtScalar(parts[1]), &b)
			if b != 0 {
				return fmt.Sprintf("%.17g", a/b)
			}
		}
	}
	return v
}

func splitTopSp(s string) []string {
	var out []string
	depth, start := 0, 0
	for i, c := range s {
		switch c {
		case '(':
			depth++
		case ')':
			depth--
		case ' ':
			if depth == 0 {
				if i > start {
					out = append(out, s[start:i])
				}
				start = i + 1
			}
		}
	}
	if start < len(s) {
		out = append(out, s[start:])
	}
	return out
}

// modelValues asks the solvers for a model of the failed obligation and the values of the driver's terms in it.
func modelValues(o *Obligation, terms map[string]string, tmp string) map[string]string {
	out := map[string]string{}
	if len(terms) == 0 {
		return out
	}
	var envs []string
	for k := range terms {
		envs = append(envs, k)
	}
	sort.Strings(envs)
	txt := o.smt(true)
	if i := strings.LastIndex(txt, "(get-model)"); i >= 0 {
		txt = txt[:i]
	}
	for _, k := range envs {
		txt += "(get-value (" + terms[k] + "))\n"
	}
	file := filepath.Join(tmp, "replay-values.smt2")
	if os.WriteFile(file, []byte(txt), 0o644) != nil {
		return out
	}
	order := []int{0, 1, 2}
	for i, sp := range solvers {
		if sp.name == o.Solver {
			order = append([]int{i}, order...)
		}
	}
	for _, si := range order {
		r := runSolver(solvers[si], file, 10000)
		if r.res != "sat" {
			continue
		}
		lines := strings.Split(strings.TrimSpace(r.out), "\n")
		// one "((term value))" answer per get-value, possibly spanning lines: re-join and split on top-level groups
		groups := topGroups(strings.Join(lines[1:], " "))
		if len(groups) != len(envs) {
			continue
		}
		for i, g := range groups {
			in := strings.TrimSpace(g)
			in = strings.TrimSuffix(strings.TrimPrefix(in, "(("), "))")
			t := terms[envs[i]]
			if strings.HasPrefix(in, t) {
				out[envs[i]] = smtScalar(in[len(t):])
			}
		}
		return out
	}
	return out
}

func topGroups(s string) []string {
	var out []string
	depth, start := 0, -1
	inBar := false
	for i, c := range s {
		if c == '|' {
			inBar = !inBar
		}
		if inBar {
			continue
		}
		switch c {
		case '(':
			if depth == 0 {
				start = i
			}
			depth++
		case ')':
			depth--
			if depth == 0 && start >= 0 {
				out = append(out, s[start:i+1])
				start = -1
			}
		}
	}
	return out
}

const virtualClockSrc = `package timex

import "time"

// virtual clock installed by gzv replay (overlay of relativetime.go): tests move it with SetVirtualNow.
var virtualNow = time.Duration(1000) * time.Hour

// SetVirtualNow sets the virtual clock.
func SetVirtualNow(d time.Duration) { virtualNow = d }

// Now returns the virtual clock.
func Now() time.Duration { return virtualNow }

// Since returns the virtual time elapsed since d.
func Since(d time.Duration) time.Duration { return virtualNow - d }
`

// runDriver injects the driver test into the real package through an overlay and runs it.
func runDriver(repo, verif string, d *replayDriver, env map[string]string, tmp string) *ReplayResult {
	src, err := os.ReadFile(filepath.Join(verif, "replay", d.File))
	if err != nil {
		return &ReplayResult{Driver: d.File, Output: "driver source missing: " + err.Error()}
	}
	ov := map[string]map[string]string{"Replace": {}}
	ov["Replace"][filepath.Join(repo, d.PkgDir, "zz_gzv_replay_test.go")] = filepath.Join(verif, "replay", d.File)
	for rel, f := range d.Extra {
		ov["Replace"][filepath.Join(repo, rel)] = filepath.Join(verif, "replay", f)
	}
	if d.Clock {
		clk := filepath.Join(tmp, "virtualclock.go")
		os.WriteFile(clk, []byte(virtualClockSrc), 0o644)
		ov["Replace"][filepath.Join(repo, "core/timex/relativetime.go")] = clk
	}
	ovb, _ := json.Marshal(ov)
	ovf := filepath.Join(tmp, "overlay.json")
	os.WriteFile(ovf, ovb, 0o644)
	to := d.Timeout
	if to <= 0 {
		to = 60
	}
	args := []string{"test", "-overlay", ovf, "-vet=off", "-count=1", fmt.Sprintf("-timeout=%ds", to), "-run", "^" + d.Test + "$", "-v", "./" + d.PkgDir}
	ctx, cancel := context.WithTimeout(context.Background(), time.Duration(to+120)*time.Second)
	defer cancel()
	cmd := exec.CommandContext(ctx, "go", args...)
	cmd.Dir = repo
	cmd.Env = append(os.Environ(), "GOFLAGS=-mod=mod", "GOPROXY=off", "GOSUMDB=off", "GOTOOLCHAIN=local")
	var keys []string
	for k := range env {
		keys = append(keys, k)
	}
	sort.Strings(keys)
	var envs []string
	for _, k := range keys {
		cmd.Env = append(cmd.Env, "GZV_"+k+"="+env[k])
		envs = append(envs, "GZV_"+k+"="+env[k])
	}
	var out bytes.Buffer
	cmd.Stdout = &out
	cmd.Stderr = &out
	runErr := cmd.Run()
	rr := &ReplayResult{Driver: d.File, PkgDir: d.PkgDir, TestFunc: d.Test, Env: env, Test: string(src), Output: trunc(out.String(), 6000),
		Cmd: "cd " + repo + " && " + strings.Join(envs, " ") + " go " + strings.Join(args, " ") +
			"   # overlay: " + d.PkgDir + "/zz_gzv_replay_test.go -> /verif/replay/" + d.File}
	for _, l := range strings.Split(out.String(), "\n") {
		if i := strings.Index(l, "GZV-REPRODUCED"); i >= 0 && runErr != nil {
			rr.Reproduced = true
			rr.Input = strings.TrimSpace(l[i+len("GZV-REPRODUCED"):])
			break
		}
	}
	return rr
}

func (e *Engine) tryReplay(o *Obligation, outDir string) *ReplayResult {
	if e.drivers == nil {
		e.drivers = loadDrivers(e.verif)
	}
	d := findDriver(e.drivers, o.Name)
	if d == nil {
		return nil
	}
	tmp, err := os.MkdirTemp("", "gzv-replay-")
	if err != nil {
		return nil
	}
	defer os.RemoveAll(tmp)
	env := map[string]string{}
	if o.Model != nil {
		names := declaredNames(o)
		terms := map[string]string{}
		for k, pat := range d.Values {
			if t := termFor(names, pat); t != "" {
				terms[k] = t
			}
		}
		env = modelValues(o, terms, tmp)
	}
	// one driver run per (driver, model values): cache within this process
	key := d.File + "|" + d.Test + "|" + fmt.Sprint(env)
	if rr, ok := e.replayCache[key]; ok {
		return rr
	}
	if e.replayRuns >= 4 {
		return nil // enough replays for one check run; the remaining failures are reported without
	}
	e.replayRuns++
	rr := runDriver(e.repo, e.verif, d, env, tmp)
	if e.replayCache == nil {
		e.replayCache = map[string]*ReplayResult{}
	}
	e.replayCache[key] = rr
	return rr
}

// cmdReplay: gzv replay <file>. Re-decides the named obligation on the current tree and re-runs the replay driver
// recorded in the file (if any). Exit 1 when the obligation still fails or the driver reproduces the failure, else 0.
func cmdReplay(args []string) int {
	if len(args) < 1 {
		fmt.Fprintln(os.Stderr, "usage: gzv replay <replay-file.json>")
		return 2
	}
	b, err := os.ReadFile(args[0])
	if err != nil {
		fmt.Println("replay:", err)
		return 2
	}
	var rf replayFile
	if err := json.Unmarshal(b, &rf); err != nil || rf.Obligation == "" {
		// engine-error files and the like: print them
		fmt.Println(string(b))
		return 1
	}
	fmt.Printf("property:   %s\nobligation: %s\nclause:     %s\nrecorded:   %s (%s)\n", rf.Property, rf.Obligation, rf.Clause, rf.Status, rf.Explanation)
	if len(rf.ModelBrief) > 0 {
		fmt.Printf("model:      %s\n", strings.Join(rf.ModelBrief, " "))
	}
	rc := 0
	// 1. re-decide the obligation on the current tree
	e := newEngine("/repo", "/verif")
	if err := e.discover(); err == nil && e.load(nil) == nil {
		tmp, _ := os.MkdirTemp("", "gzv-smt-")
		defer os.RemoveAll(tmp)
		var all []*Obligation
		for _, c := range e.unitsFor(rf.Property) {
			if !strings.HasPrefix(rf.Obligation, c.Key) && !strings.Contains(rf.Obligation, shortKey(c.Key)) {
				continue
			}
			u := e.runUnit(c)
			for _, o := range u.obls {
				if baseName(o.Name) == baseName(rf.Obligation) {
					all = append(all, o)
				}
			}
		}
		lua, _ := e.runLua(rf.Property)
		for _, o := range append(lua, e.runLemmas(rf.Property)...) {
			if baseName(o.Name) == baseName(rf.Obligation) {
				all = append(all, o)
			}
		}
		if len(all) == 0 {
			fmt.Println("current tree: the obligation is no longer generated (code or contract changed)")
		}
		for _, o := range all {
			if o.Status == "" {
				decide(o, tmp, 10000, false)
			}
			fmt.Printf("current tree: %-16s %s %s %dms\n", o.Status, o.Name, o.Solver, o.Ms)
			if o.Status != "discharged" && o.Status != "expected-sat-ok" {
				rc = 1
				if o.Model != nil {
					fmt.Printf("    model: %v\n", modelSummary(o.Model, 30))
				}
			}
		}
	} else {
		fmt.Println("current tree: could not load the contracts/packages")
		rc = 1
	}
	// 2. re-run the recorded driver
	if rf.Replay != nil && rf.Replay.Driver != "" {
		tmp, _ := os.MkdirTemp("", "gzv-replay-")
		defer os.RemoveAll(tmp)
		ds := loadDrivers("/verif")
		var d *replayDriver
		for i := range ds {
			if ds[i].File == rf.Replay.Driver && ds[i].Test == rf.Replay.TestFunc {
				d = &ds[i]
			}
		}
		if d == nil {
			fmt.Println("driver", rf.Replay.Driver, "is no longer registered")
		} else {
			rr := runDriver("/repo", "/verif", d, rf.Replay.Env, tmp)
			fmt.Printf("driver %s (%s) env=%v\n%s\n", d.File, d.Test, rf.Replay.Env, rr.Output)
			if rr.Reproduced {
				fmt.Println("REPRODUCED on the real code:", rr.Input)
				rc = 1
			} else {
				fmt.Println("driver did not reproduce a failure on the current tree")
			}
		}
	} else {
		fmt.Println("no replay driver recorded for this obligation (no-failing-input-found)")
	}
	return rc
}

// cmdDrivers: gzv drivers — runs every registered replay driver / bounded stand-in once on the current tree without model
// values. On the unchanged tree every driver must pass (a driver that fails there would turn a failed obligation into a
// wrongly "reproduced" violation), except the stand-ins listed as known findings.
func cmdDrivers(args []string) int {
	repo, verif := "/repo", "/verif"
	for i := 0; i+1 < len(args); i += 2 {
		switch args[i] {
		case "-repo":
			repo = args[i+1]
		case "-verif":
			verif = args[i+1]
		}
	}
	known, _ := loadKnownFindings(filepath.Join(verif, "known_findings.json"))
	seen := map[string]bool{}
	rc := 0
	for _, d := range loadDrivers(verif) {
		d := d
		key := d.File + "|" + d.Test
		if seen[key] {
			continue
		}
		seen[key] = true
		tmp, _ := os.MkdirTemp("", "gzv-drivers-")
		t0 := time.Now()
		rr := runDriver(repo, verif, &d, map[string]string{"TIER": "quick"}, tmp)
		os.RemoveAll(tmp)
		status := "PASS"
		if rr.Reproduced {
			status = "FAIL"
			for _, k := range known {
				if k.Status == "known" && k.Obligation == "bounded/"+d.Test {
					if re, err := regexp.Compile(k.InputRegex); err == nil && k.InputRegex != "" && re.MatchString(rr.Input) {
						status = "KNOWN"
					}
				}
			}
		} else if !strings.Contains(rr.Output, "--- PASS") {
			status = "BROKEN"
		}
		fmt.Printf("%-7s %-28s %-34s %5.1fs %s\n", status, d.PkgDir, d.Test, time.Since(t0).Seconds(), trunc(rr.Input, 160))
		if status == "FAIL" || status == "BROKEN" {
			rc = 1
			if status == "BROKEN" {
				fmt.Println(trunc(rr.Output, 1500))
			}
		}
	}
	return rc
}

// driverServes: the driver is registered for at least one obligation-name prefix of a unit of the property.
func (e *Engine) driverServes(d *replayDriver, prop string) bool {
	re, err := regexp.Compile(d.Match)
	if err != nil {
		return false
	}
	for _, c := range e.unitsFor(prop) {
		if re.MatchString(shortKey(c.Key)+"/post#0") || re.MatchString(c.Key+"/post#0") {
			return true
		}
	}
	return false
}
