package main

import (
	"fmt"
	"go/ast"
	"go/types"
	"sort"
	"strings"
)

// Representation encapsulation for types with a lock invariant.
//
// The fields listed under guarded_by (and the Go maps stored in fields listed under owns) are the private representation of
// the type: clients see only the model fields (ghost variables) that the lock invariant couples to the representation.
//
//   - repCheck (obligations rep/...): every function of the package that mentions a guarded field is under contract (so
//     each access is checked to happen under the lock, guarded@...), and an owned map never escapes: its field is only
//     indexed, ranged over, measured, deleted from, assigned a fresh map (make / literal) or another owned field of the same
//     type. Hence nobody outside the verified methods can reach the representation.
//   - repHidden: at a call site, a callee's modifies entries that name representation locations of an object whose lock the
//     caller does not hold are not applied to the caller's state: the caller cannot read those locations without locking,
//     and locking havocs them and re-assumes the invariant (monitor rule).

// repCheck returns obligations for the lock invariants of the named type.
func (e *Engine) repCheck(u *Unit, n *types.Named) {
	if n == nil || n.Obj().Pkg() == nil {
		return
	}
	prefix := n.Obj().Pkg().Path() + "." + n.Obj().Name() + "."
	var lis []*LockInv
	for k, li := range e.cs.LockInvs {
		if strings.HasPrefix(k, prefix) {
			lis = append(lis, li)
		}
	}
	if len(lis) == 0 {
		return
	}
	sort.Slice(lis, func(i, j int) bool { return lis[i].Field < lis[j].Field })
	pkg := e.pkgs[n.Obj().Pkg().Path()]
	if pkg == nil || pkg.TypesInfo == nil {
		return
	}
	st, ok := n.Underlying().(*types.Struct)
	if !ok {
		return
	}
	fieldObj := map[string]*types.Var{}
	for i := 0; i < st.NumFields(); i++ {
		fieldObj[st.Field(i).Name()] = st.Field(i)
	}
	for _, li := range lis {
		guarded := map[*types.Var]string{}
		owned := map[*types.Var]string{}
		for _, g := range li.Guarded {
			if fo := fieldObj[g]; fo != nil {
				guarded[fo] = g
			}
		}
		for _, g := range li.Owned {
			if fo := fieldObj[g]; fo != nil {
				owned[fo] = g
			}
		}
		var uncontracted, escapes []string
		for _, f := range pkg.Syntax {
			fname := pkg.Fset.Position(f.Pos()).Filename
			if strings.HasSuffix(fname, "_test.go") {
				continue
			}
			for _, d := range f.Decls {
				fd, ok := d.(*ast.FuncDecl)
				if !ok || fd.Body == nil {
					continue
				}
				obj, _ := pkg.TypesInfo.Defs[fd.Name].(*types.Func)
				if obj == nil {
					continue
				}
				mentions := false
				mentionsOutsideLit := false
				inLit := func(st []ast.Node) bool {
					for _, n := range st {
						if _, ok := n.(*ast.FuncLit); ok {
							return true
						}
					}
					return false
				}
				var stack []ast.Node
				ast.Inspect(fd.Body, func(nd ast.Node) bool {
					if nd == nil {
						stack = stack[:len(stack)-1]
						return true
					}
					stack = append(stack, nd)
					var fo *types.Var
					switch x := nd.(type) {
					case *ast.SelectorExpr:
						if sel := pkg.TypesInfo.Selections[x]; sel != nil {
							fo, _ = sel.Obj().(*types.Var)
						}
					case *ast.KeyValueExpr:
						if id, ok := x.Key.(*ast.Ident); ok {
							fo, _ = pkg.TypesInfo.Uses[id].(*types.Var)
							if fo != nil {
								if _, isG := guarded[fo]; isG {
									mentions = true
									if !inLit(stack) {
										mentionsOutsideLit = true
									}
								}
								if name, isO := owned[fo]; isO && !freshMapExpr(x.Value) {
									escapes = append(escapes, fmt.Sprintf("%s: %s initialised with a map that is not fresh", pkg.Fset.Position(x.Pos()), name))
								}
							}
						}
						return true
					}
					if fo == nil {
						return true
					}
					if _, isG := guarded[fo]; isG {
						mentions = true
						if !inLit(stack) {
							mentionsOutsideLit = true
						}
					}
					name, isO := owned[fo]
					if !isO || len(stack) < 2 {
						return true
					}
					if !ownedUseOK(pkg.TypesInfo, stack, owned) {
						escapes = append(escapes, fmt.Sprintf("%s: %s used in a context that may leak the map", pkg.Fset.Position(nd.Pos()), name))
					}
					return true
				})
				if mentions {
					k := calleeKey(obj)
					if e.cs.Funcs[k] == nil {
						// accesses confined to closures that have their own contracts are checked there
						hasClosure := false
						for ck := range e.cs.Funcs {
							if strings.HasPrefix(ck, k+"#closure") {
								hasClosure = true
							}
						}
						if !hasClosure || mentionsOutsideLit {
							uncontracted = append(uncontracted, shortKey(k))
						}
					}
				}
			}
		}
		mk := func(name, text string, bad []string) {
			o := &Obligation{Name: name, Func: u.name, Kind: "rep", Property: u.c.Props, Goal: "true", Status: "discharged", Solver: "syntactic", Note: text}
			if len(bad) > 0 {
				o.Goal = "false"
				o.Status = "failed-nomodel"
				o.RawOut = strings.Join(bad, "\n")
			}
			u.obls = append(u.obls, o)
		}
		mk(fmt.Sprintf("rep/closed/%s.%s", n.Obj().Name(), li.Field), "every function of the package that mentions a field guarded by "+li.Field+" is under contract", uncontracted)
		if len(li.Owned) > 0 {
			mk(fmt.Sprintf("rep/owned/%s.%s", n.Obj().Name(), li.Field), "the maps in owned fields never escape (only indexed, ranged, measured, deleted from, or assigned fresh/owned maps)", escapes)
		}
	}
}

func freshMapExpr(e ast.Expr) bool {
	switch x := ast.Unparen(e).(type) {
	case *ast.CallExpr:
		if id, ok := x.Fun.(*ast.Ident); ok && id.Name == "make" {
			return true
		}
	case *ast.CompositeLit:
		return true
	case *ast.Ident:
		return x.Name == "nil"
	}
	return false
}

// ownedUseOK: stack ends with the selector of an owned field; decide from its parent whether the use keeps the map private.
func ownedUseOK(info *types.Info, stack []ast.Node, owned map[*types.Var]string) bool {
	self := stack[len(stack)-1].(ast.Expr)
	parent := stack[len(stack)-2]
	isOwnedSel := func(e ast.Expr) bool {
		if s, ok := ast.Unparen(e).(*ast.SelectorExpr); ok {
			if sel := info.Selections[s]; sel != nil {
				if fo, ok := sel.Obj().(*types.Var); ok {
					_, is := owned[fo]
					return is
				}
			}
		}
		return false
	}
	switch p := parent.(type) {
	case *ast.IndexExpr:
		return p.X == self
	case *ast.RangeStmt:
		return p.X == self
	case *ast.CallExpr:
		if id, ok := p.Fun.(*ast.Ident); ok {
			switch id.Name {
			case "len":
				return true
			case "delete", "clear":
				return len(p.Args) > 0 && p.Args[0] == self
			}
		}
		return false
	case *ast.AssignStmt:
		for i, l := range p.Lhs {
			if l == self {
				// assigned to: the new value must be fresh or another owned map
				if len(p.Rhs) == len(p.Lhs) {
					return freshMapExpr(p.Rhs[i]) || isOwnedSel(p.Rhs[i])
				}
				return false
			}
		}
		for i, r := range p.Rhs {
			if r == self {
				return len(p.Rhs) == len(p.Lhs) && isOwnedSel(p.Lhs[i])
			}
		}
		return false
	case *ast.BinaryExpr:
		// comparison with nil
		return true
	}
	return false
}

// repHidden: the modifies target names a representation location (guarded field, or the contents of an owned map) of an
// object whose lock is not held in st.
func (u *Unit) repHidden(sev *Ev, e ast.Expr) bool {
	inner := e
	isMapOf := false
	if call, ok := e.(*ast.CallExpr); ok {
		if id, ok := call.Fun.(*ast.Ident); ok && id.Name == "mapof" && len(call.Args) == 1 {
			inner = call.Args[0]
			isMapOf = true
		}
	}
	sel, ok := inner.(*ast.SelectorExpr)
	if !ok {
		return false
	}
	if id, ok := sel.X.(*ast.Ident); ok {
		if _, bound := sev.binds[id.Name]; !bound {
			return false
		}
	} else {
		return false
	}
	base := sev.expr(sel.X)
	if base.K != vScalar || base.Typ == nil {
		return false
	}
	t := base.Typ
	if p, ok := t.Underlying().(*types.Pointer); ok {
		t = p.Elem()
	} else {
		return false
	}
	n, ok := t.(*types.Named)
	if !ok || n.Obj().Pkg() == nil {
		return false
	}
	prefix := n.Obj().Pkg().Path() + "." + n.Obj().Name() + "."
	for k, li := range u.eng.cs.LockInvs {
		if !strings.HasPrefix(k, prefix) {
			continue
		}
		list := li.Guarded
		if isMapOf {
			list = li.Owned
		}
		for _, g := range list {
			if g == sel.Sel.Name {
				if sev.st.held[base.T+"."+li.Field] {
					return false
				}
				u.eng.noteMeta(u, "representation of "+n.Obj().Name()+" (fields guarded by "+li.Field+", owned maps) is invisible to callers that do not hold the lock (checked: rep/closed, rep/owned under C16)")
				return true
			}
		}
	}
	return false
}
