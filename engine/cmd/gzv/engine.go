package main

import (
	"fmt"
	"go/ast"
	"go/token"
	"go/types"
	"os"
	"path/filepath"
	"sort"
	"strings"
	"sync"

	"golang.org/x/tools/go/packages"
)

const modulePath = "github.com/zeromicro/go-zero"

type Engine struct {
	repo          string
	verif         string
	cs            *ContractSet
	pkgs          map[string]*packages.Package
	famSorts      map[string]Sort
	mu            sync.Mutex
	specErrs      []string
	trusted       map[string]map[string]bool // unit -> trusted contracts used
	meta          map[string]map[string]bool
	contractFiles []string
	contractDirs  map[string]string // pkgpath -> dir
	funcDecls     map[string]*ast.FuncDecl
	funcPkg       map[string]*packages.Package
	varLits       map[string]*ast.FuncLit // package-level `var f = func...` units
	varInits      map[string]bool         // package-level `var v = f(args)` units (synthetic function around the initialiser call)
	verbose       bool
	luaTrusted    []string
	notDecided    map[string][]string
	lemmaUsed     map[string]bool
	repDone       map[string]bool
	drivers       []replayDriver
	replayCache   map[string]*ReplayResult
	replayRuns    int
	noReplay      bool
	forceBounded  bool
}

func newEngine(repo, verif string) *Engine {
	return &Engine{repo: repo, verif: verif, cs: newContractSet(), pkgs: map[string]*packages.Package{}, famSorts: map[string]Sort{},
		trusted: map[string]map[string]bool{}, meta: map[string]map[string]bool{}, contractDirs: map[string]string{},
		funcDecls: map[string]*ast.FuncDecl{}, funcPkg: map[string]*packages.Package{}, varLits: map[string]*ast.FuncLit{}, varInits: map[string]bool{}, notDecided: map[string][]string{}, lemmaUsed: map[string]bool{}, repDone: map[string]bool{}}
}

func (e *Engine) specError(msg string) {
	e.mu.Lock()
	defer e.mu.Unlock()
	for _, m := range e.specErrs {
		if m == msg {
			return
		}
	}
	e.specErrs = append(e.specErrs, msg)
}

func (e *Engine) noteTrusted(u *Unit, c *Contract) {
	e.mu.Lock()
	defer e.mu.Unlock()
	m := e.trusted[u.name]
	if m == nil {
		m = map[string]bool{}
		e.trusted[u.name] = m
	}
	kind := "trusted contract"
	if c.Extern {
		kind = "extern contract"
	}
	m[kind+": "+c.Key] = true
}

func (e *Engine) noteMeta(u *Unit, s string) {
	e.mu.Lock()
	defer e.mu.Unlock()
	m := e.meta[u.name]
	if m == nil {
		m = map[string]bool{}
		e.meta[u.name] = m
	}
	m[s] = true
}

func (e *Engine) pkgByName(name string) *types.Package {
	for _, p := range e.pkgs {
		if p.Types != nil && p.Types.Name() == name {
			return p.Types
		}
	}
	for _, p := range e.pkgs {
		if p.Types == nil {
			continue
		}
		for _, imp := range p.Types.Imports() {
			if imp.Name() == name {
				return imp
			}
		}
	}
	return nil
}

// lookupMethodContract finds a contract for method name on the static receiver type (incl. interface types).
func (e *Engine) lookupMethodContract(t types.Type, name string) *Contract {
	ptr := false
	if p, ok := t.Underlying().(*types.Pointer); ok {
		t = p.Elem()
		ptr = true
	}
	if p, ok := t.(*types.Pointer); ok {
		t = p.Elem()
		ptr = true
	}
	var tn *types.TypeName
	switch tt := t.(type) {
	case *types.Named:
		tn = tt.Obj()
	case *types.TypeParam:
		// constraint interface
		if n, ok := tt.Constraint().(*types.Named); ok {
			tn = n.Obj()
		}
	}
	if tn == nil || tn.Pkg() == nil {
		return nil
	}
	q := tn.Pkg().Path() + "." + tn.Name()
	for _, k := range []string{"(*" + q + ")." + name, "(" + q + ")." + name} {
		if c, ok := e.cs.Funcs[k]; ok {
			return c
		}
	}
	_ = ptr
	return nil
}

// discover finds contract files in the repository and extern specs in /verif/specs.
func (e *Engine) discover() error {
	err := filepath.Walk(e.repo, func(path string, info os.FileInfo, err error) error {
		if err != nil {
			return nil
		}
		if info.IsDir() {
			n := info.Name()
			if n == ".git" || n == "node_modules" || n == "testdata" {
				return filepath.SkipDir
			}
			return nil
		}
		if info.Name() == "zz_contracts_verif.go" {
			e.contractFiles = append(e.contractFiles, path)
		}
		return nil
	})
	if err != nil {
		return err
	}
	sort.Strings(e.contractFiles)
	for _, f := range e.contractFiles {
		dir := filepath.Dir(f)
		rel, _ := filepath.Rel(e.repo, dir)
		pkgPath := modulePath
		if rel != "." {
			pkgPath += "/" + filepath.ToSlash(rel)
		}
		e.contractDirs[pkgPath] = dir
		if err := e.cs.ParseFile(f, pkgPath); err != nil {
			return err
		}
	}
	specs, _ := filepath.Glob(filepath.Join(e.verif, "specs", "*.spec"))
	sort.Strings(specs)
	for _, f := range specs {
		if err := e.cs.ParseFile(f, "extern"); err != nil {
			return err
		}
	}
	return nil
}

// load type-checks all packages that carry contract files.
func (e *Engine) load(only map[string]bool) error {
	var pats []string
	for p, dir := range e.contractDirs {
		if only != nil && !only[p] {
			continue
		}
		_ = dir
		pats = append(pats, p)
	}
	sort.Strings(pats)
	if len(pats) == 0 {
		return nil
	}
	cfg := &packages.Config{
		Mode: packages.NeedName | packages.NeedFiles | packages.NeedCompiledGoFiles | packages.NeedImports | packages.NeedTypes |
			packages.NeedSyntax | packages.NeedTypesInfo | packages.NeedTypesSizes,
		Dir:        e.repo,
		BuildFlags: []string{"-tags=verif"},
		Env:        append(os.Environ(), "GOFLAGS=-mod=mod", "GOPROXY=off", "GOSUMDB=off", "GOTOOLCHAIN=local"),
	}
	pkgs, err := packages.Load(cfg, pats...)
	if err != nil {
		return err
	}
	for _, p := range pkgs {
		if len(p.Errors) > 0 {
			return fmt.Errorf("package %s: %v", p.PkgPath, p.Errors[0])
		}
		e.pkgs[p.PkgPath] = p
		for _, f := range p.Syntax {
			for _, d := range f.Decls {
				if gd, isGen := d.(*ast.GenDecl); isGen && gd.Tok == token.VAR {
					// package-level `var f = func(...) {...}`: a function value that is a unit like a function declaration
					// (contract header `//@ func f`); the synthetic declaration shares the literal's type and body
					for _, sp := range gd.Specs {
						vs, ok := sp.(*ast.ValueSpec)
						if !ok || len(vs.Names) != len(vs.Values) {
							continue
						}
						for i, nm := range vs.Names {
							lit, isLit := ast.Unparen(vs.Values[i]).(*ast.FuncLit)
							if call, isCall := ast.Unparen(vs.Values[i]).(*ast.CallExpr); isCall && nm.Name != "_" {
								// package-level `var v = f(args)`: the initialiser call is a unit too (contract header `//@ func v`):
								// a synthetic parameterless function whose body is the real call expression
								k := p.PkgPath + "." + nm.Name
								if _, taken := e.funcDecls[k]; !taken {
									e.funcDecls[k] = &ast.FuncDecl{Name: nm, Type: &ast.FuncType{Params: &ast.FieldList{}},
										Body: &ast.BlockStmt{Lbrace: call.Pos(), List: []ast.Stmt{&ast.ExprStmt{X: call}}, Rbrace: call.End()}}
									e.funcPkg[k] = p
									e.varInits[k] = true
								}
								continue
							}
							if !isLit || nm.Name == "_" {
								continue
							}
							k := p.PkgPath + "." + nm.Name
							if _, taken := e.funcDecls[k]; taken {
								continue
							}
							e.funcDecls[k] = &ast.FuncDecl{Name: nm, Type: lit.Type, Body: lit.Body}
							e.funcPkg[k] = p
							e.varLits[k] = lit
						}
					}
					continue
				}
				fd, ok := d.(*ast.FuncDecl)
				if !ok {
					continue
				}
				obj, _ := p.TypesInfo.Defs[fd.Name].(*types.Func)
				if obj == nil {
					continue
				}
				k := calleeKey(obj)
				e.funcDecls[k] = fd
				e.funcPkg[k] = p
			}
		}
	}
	// make type-only stubs for contract packages reachable through imports
	var visit func(tp *types.Package)
	seen := map[string]bool{}
	visit = func(tp *types.Package) {
		if seen[tp.Path()] {
			return
		}
		seen[tp.Path()] = true
		if _, ok := e.pkgs[tp.Path()]; !ok {
			e.pkgs[tp.Path()] = &packages.Package{PkgPath: tp.Path(), Name: tp.Name(), Types: tp}
		}
		for _, imp := range tp.Imports() {
			visit(imp)
		}
	}
	for _, p := range pkgs {
		visit(p.Types)
	}
	return nil
}

// unitsFor returns the contracts (with bodies) tagged with the property.
func (e *Engine) unitsFor(prop string) []*Contract {
	var out []*Contract
	for _, c := range e.cs.Order {
		if c.Extern || c.Flags["trusted"] {
			continue
		}
		if prop == "" || hasProp(c.Props, prop) {
			out = append(out, c)
		}
	}
	return out
}

func hasProp(ps []string, p string) bool {
	for _, x := range ps {
		if x == p {
			return true
		}
	}
	return false
}

func shortKey(key string) string {
	k := strings.ReplaceAll(key, modulePath+"/", "")
	return k
}

// runUnit generates the obligations of one contract.
func (e *Engine) runUnit(c *Contract) (u *Unit) {
	baseKey := c.Key
	if i := strings.Index(baseKey, "#closure"); i >= 0 {
		baseKey = baseKey[:i]
	}
	u = &Unit{eng: e, c: c, name: shortKey(c.Key), declared: map[string]bool{}, assumptions: map[string]bool{}, uncontracted: map[string]bool{},
		strLits: map[string]string{}, oblCount: map[string]int{}, loopOrd: map[ast.Stmt]string{}, callOrd: map[*ast.CallExpr]string{},
		litOrd: map[*ast.FuncLit]int{}, allocd: map[string]bool{}, allocT: map[string]types.Type{}, reached: map[string]bool{}, maxPaths: 4000, entryHeld: map[string]bool{}}
	defer func() {
		if r := recover(); r != nil {
			u.subsetErrs = append(u.subsetErrs, fmt.Sprintf("engine panic: %v", r))
			if e.verbose {
				panic(r)
			}
		}
	}()
	fd := e.funcDecls[baseKey]
	pkg := e.funcPkg[baseKey]
	if fd == nil || fd.Body == nil || pkg == nil {
		o := &Obligation{Name: "target/" + u.name, Func: u.name, Kind: "target", Property: c.Props, Goal: "false", Status: "failed-nomodel",
			RawOut: "function named by the contract was not found in /repo (renamed, deleted or moved)", Note: c.File}
		u.obls = append(u.obls, o)
		u.missing = true
		return u
	}
	u.pkg = pkg
	u.fdecl = fd
	u.ftype = fd.Type
	u.body = fd.Body
	if lit := e.varLits[baseKey]; lit != nil {
		u.sig, _ = pkg.TypesInfo.TypeOf(lit).(*types.Signature)
	} else if e.varInits[baseKey] {
		u.sig = types.NewSignatureType(nil, nil, nil, nil, nil, false)
	} else {
		obj := pkg.TypesInfo.Defs[fd.Name].(*types.Func)
		u.sig = obj.Type().(*types.Signature)
	}
	u.floatIEEE = c.Flags["float_ieee"]
	u.overflow = c.Flags["overflow_checked"]
	// ordinals over the whole enclosing function
	u.computeOrdinals(fd.Body)
	if c.Closure >= 0 {
		var lits []*ast.FuncLit
		ast.Inspect(fd.Body, func(n ast.Node) bool {
			if l, ok := n.(*ast.FuncLit); ok {
				lits = append(lits, l)
			}
			return true
		})
		if c.Closure >= len(lits) {
			o := &Obligation{Name: "target/" + u.name, Func: u.name, Kind: "target", Property: c.Props, Goal: "false", Status: "failed-nomodel",
				RawOut: "closure ordinal not found in the enclosing function", Note: c.File}
			u.obls = append(u.obls, o)
			u.missing = true
			return u
		}
		u.lit = lits[c.Closure]
		u.ftype = u.lit.Type
		u.body = u.lit.Body
		u.sig, _ = pkg.TypesInfo.TypeOf(u.lit).(*types.Signature)
		u.loopOrd = map[ast.Stmt]string{}
		u.callOrd = map[*ast.CallExpr]string{}
		u.computeOrdinals(u.lit.Body)
	}
	st := &State{env: map[types.Object]Value{}, heap: map[string]string{}, held: map[string]bool{}, lets: map[string]Value{}}
	u.entry = st
	info := pkg.TypesInfo
	// receiver and parameters
	bindField := func(fl *ast.FieldList) {
		if fl == nil {
			return
		}
		for _, f := range fl.List {
			for _, n := range f.Names {
				if n.Name == "_" {
					continue
				}
				o := info.Defs[n]
				if o == nil {
					continue
				}
				v := u.freshValue(o.Type(), n.Name, st)
				u.assumeAllocated(st, v)
				st.env[o] = v
			}
		}
	}
	if c.Closure < 0 {
		bindField(fd.Recv)
	}
	bindField(u.ftype.Params)
	fr := &Frame{fn: u.ftype}
	if u.ftype.Results != nil {
		for _, f := range u.ftype.Results.List {
			for _, n := range f.Names {
				o := info.Defs[n]
				if o == nil {
					continue
				}
				st.env[o] = u.zero(o.Type())
				fr.results = append(fr.results, o)
				u.resultObjs = append(u.resultObjs, o)
			}
		}
	}
	st.frames = []*Frame{fr}
	// requires
	pos := u.body.Lbrace + 1
	for _, l := range c.Lets {
		sev := u.specEv(st, pos, u.name+" let")
		sev.old = st
		if id, ok := l.LHS.(*ast.Ident); ok {
			st.lets[id.Name] = sev.expr(l.RHS)
		}
	}
	for _, r := range c.Requires {
		if call, ok := r.Expr.(*ast.CallExpr); ok {
			if id, ok := call.Fun.(*ast.Ident); ok && (id.Name == "held" || id.Name == "heldw") && len(call.Args) == 1 {
				sev := u.specEv(st, pos, u.name+" requires")
				k := u.lockKeySpec(sev, call.Args[0])
				st.held[k] = true
				u.entryHeld[k] = true
				continue
			}
		}
		sev := u.specEv(st, pos, u.name+" requires")
		sev.old = st
		g := sev.expr(r.Expr)
		st.assume(g.T)
	}
	// object invariants
	if c.Closure < 0 && fd.Recv != nil && len(fd.Recv.List) > 0 && len(fd.Recv.List[0].Names) > 0 {
		if ro := info.Defs[fd.Recv.List[0].Names[0]]; ro != nil {
			if key := typeInvKey(ro.Type()); key != "" && e.cs.TypeInvs[key] != nil {
				u.selfInvKey = key
				u.recvObj, _ = ro.(*types.Var)
				if rv, ok := st.env[ro]; ok && rv.K == vScalar {
					st.assume(u.typeInvTerm(st, e.cs.TypeInvs[key], u.namedByKey(key), rv.T))
				}
			}
		}
	}
	// representation encapsulation of the receiver's type (once per type and run)
	if c.Closure < 0 && fd.Recv != nil && len(fd.Recv.List) > 0 {
		rt := info.TypeOf(fd.Recv.List[0].Type)
		if p, ok := rt.(*types.Pointer); ok {
			rt = p.Elem()
		}
		if n, ok := rt.(*types.Named); ok && n.Obj().Pkg() != nil {
			k := n.Obj().Pkg().Path() + "." + n.Obj().Name()
			e.mu.Lock()
			first := !e.repDone[k]
			e.repDone[k] = true
			e.mu.Unlock()
			if first {
				e.repCheck(u, n)
			}
		}
	}
	u.assumeTypeInvs(st)
	u.emitSat(st, "vacuity/pre", "preconditions, type facts and axioms are jointly satisfiable")
	u.entry = st.clone()
	ctl := &Ctl{brk: map[string]func(*State){}, cont: map[string]func(*State){}}
	ctl.ret = func(s2 *State, vals []Value) { u.exitFrame(s2, vals) }
	u.ghostAt(st, "entry", pos)
	u.block(st, u.body.List, ctl, func(s2 *State) { u.exitFrame(s2, nil) })
	// "nomethods T: m1, m2": the methods named stay the promoted ones of an embedded value - a method of that name declared on
	// T itself would silently take over every call made through T (structural obligation)
	for _, nm := range c.NoMethods {
		parts := strings.SplitN(nm, ":", 2)
		if len(parts) != 2 || u.pkg == nil || u.pkg.Types == nil {
			continue
		}
		tn := strings.TrimSpace(parts[0])
		obj := u.pkg.Types.Scope().Lookup(tn)
		named, _ := func() (*types.Named, bool) {
			if obj == nil {
				return nil, false
			}
			n, ok := obj.Type().(*types.Named)
			return n, ok
		}()
		for _, m := range strings.Split(parts[1], ",") {
			m = strings.TrimSpace(m)
			o := &Obligation{Name: "shadow/" + tn + "." + m, Func: u.name, Kind: "shadow", Property: c.Props, Goal: "true", Status: "discharged", Solver: "syntactic",
				Note: "type " + tn + " declares no method " + m + " of its own (the promoted one is what callers reach)"}
			declared := named == nil
			if named != nil {
				for i := 0; i < named.NumMethods(); i++ {
					if named.Method(i).Name() == m {
						declared = true
					}
				}
			}
			if declared {
				o.Goal, o.Status, o.RawOut = "false", "failed-nomodel", "type "+tn+" declares its own method "+m+" (or the type is gone): it shadows the promoted method"
			}
			u.obls = append(u.obls, o)
		}
	}
	// anchors that were never reached
	for id := range c.Loops {
		if !u.reached["loop "+id] {
			u.subsetErr(token.NoPos, "contract names loop %q which was not found/reached", id)
		}
	}
	for id := range c.CallAsserts {
		if strings.HasSuffix(id, "#*") {
			continue // "every call of X": vacuously fine when there is none
		}
		if !u.reached["call "+id] {
			u.subsetErr(token.NoPos, "contract names call site %q which was not found/reached", id)
		}
	}
	for id := range c.GhostAt {
		if !u.reached["ghost "+id] && id != "entry" {
			u.subsetErr(token.NoPos, "contract names ghost anchor %q which was not found/reached", id)
		}
	}
	if len(u.subsetErrs) > 0 {
		o := &Obligation{Name: "subset/" + u.name, Func: u.name, Kind: "subset", Property: c.Props, Goal: "false", Status: "failed-nomodel",
			RawOut: strings.Join(u.subsetErrs, "\n")}
		u.obls = append(u.obls, o)
	}
	u.finalize()
	return u
}

// computeOrdinals numbers loops ("0","1",...) and call sites ("Name#k") in source order.
func (u *Unit) computeOrdinals(body *ast.BlockStmt) {
	loopN := 0
	callN := map[string]int{}
	litN := 0
	retN := 0
	if u.retOrd == nil {
		u.retOrd = map[*ast.ReturnStmt]int{}
	}
	ast.Inspect(body, func(n ast.Node) bool {
		switch x := n.(type) {
		case *ast.ReturnStmt:
			u.retOrd[x] = retN
			retN++
		case *ast.ForStmt, *ast.RangeStmt:
			u.loopOrd[x.(ast.Stmt)] = fmt.Sprint(loopN)
			loopN++
		case *ast.FuncLit:
			u.litOrd[x] = litN
			litN++
		case *ast.CallExpr:
			name := ""
			switch f := ast.Unparen(x.Fun).(type) {
			case *ast.Ident:
				name = f.Name
			case *ast.SelectorExpr:
				name = f.Sel.Name
			case *ast.IndexExpr:
				if id, ok := f.X.(*ast.Ident); ok {
					name = id.Name
				} else if s, ok := f.X.(*ast.SelectorExpr); ok {
					name = s.Sel.Name
				}
			}
			if name != "" {
				u.callOrd[x] = fmt.Sprintf("%s#%d", name, callN[name])
				callN[name]++
			}
		}
		return true
	})
}
