package main

import (
	"fmt"
	"strings"
)

// sx is a parsed S-expression.
type sx struct {
	atom string
	list []*sx
}

func parseSx(toks []string, i int) (*sx, int) {
	if i >= len(toks) {
		return &sx{atom: ""}, i
	}
	if toks[i] != "(" {
		return &sx{atom: toks[i]}, i + 1
	}
	n := &sx{}
	i++
	for i < len(toks) && toks[i] != ")" {
		var c *sx
		c, i = parseSx(toks, i)
		n.list = append(n.list, c)
	}
	return n, i + 1
}

func (s *sx) String() string {
	if s.list == nil && s.atom != "" {
		return s.atom
	}
	var b strings.Builder
	b.WriteByte('(')
	for i, c := range s.list {
		if i > 0 {
			b.WriteByte(' ')
		}
		b.WriteString(c.String())
	}
	b.WriteByte(')')
	return b.String()
}

func (s *sx) head() string {
	if len(s.list) > 0 && s.list[0].list == nil {
		return s.list[0].atom
	}
	return ""
}

// skolemizeGoal replaces universally quantified variables in positive positions of the goal by fresh constants
// (proving G[c] for an arbitrary constant c proves forall x. G[x]); existentials in negative positions likewise.
// Returns the new goal and extra declarations.
func skolemizeGoal(goal string) (string, []string) {
	if !strings.Contains(goal, "(forall ") && !strings.Contains(goal, "(exists ") {
		return goal, nil
	}
	t, _ := parseSx(tokenize(goal), 0)
	var decls []string
	var rec func(n *sx, pos bool) *sx
	rec = func(n *sx, pos bool) *sx {
		switch n.head() {
		case "and", "or":
			out := &sx{list: []*sx{n.list[0]}}
			for _, c := range n.list[1:] {
				out.list = append(out.list, rec(c, pos))
			}
			return out
		case "not":
			if len(n.list) == 2 {
				return &sx{list: []*sx{n.list[0], rec(n.list[1], !pos)}}
			}
		case "=>":
			if len(n.list) == 3 {
				return &sx{list: []*sx{n.list[0], rec(n.list[1], !pos), rec(n.list[2], pos)}}
			}
		case "!":
			if len(n.list) >= 2 {
				return rec(n.list[1], pos)
			}
		case "forall", "exists":
			if len(n.list) == 3 && ((n.head() == "forall") == pos) {
				for _, b := range n.list[1].list {
					if len(b.list) == 2 {
						decls = append(decls, fmt.Sprintf("(declare-const %s %s)", b.list[0].String(), b.list[1].String()))
					}
				}
				return rec(n.list[2], pos)
			}
		}
		return n
	}
	out := rec(t, true)
	return out.String(), decls
}
