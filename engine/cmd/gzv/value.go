package main

import (
	"fmt"
	"go/ast"
	"go/types"
	"sort"
	"strings"
)

type vkind int

const (
	vScalar vkind = iota
	vStruct
	vSlice
	vFunc   // function literal (closure) known statically
	vTuple  // multiple results
	vAddr   // address of an lvalue (&x.f)
	vType   // a type used as value (conversion target)
	vPkg    // package name
	vMethod // bound method / function object without value
)

// Value is a symbolic value.
type Value struct {
	K       vkind
	T       string // SMT term (scalars)
	S       Sort
	Typ     types.Type
	Comp    map[string]Value // struct fields by name; slices: "#arr", "#len"
	Tuple   []Value
	Fn      *ast.FuncLit
	FnUnit  *Unit
	LV      *LValue
	Pkg     *types.Package
	Untyped bool // untyped numeric constant (spec mode)
	Obj     types.Object
	Recv    *Value
}

func scalar(t string, s Sort, typ types.Type) Value { return Value{K: vScalar, T: t, S: s, Typ: typ} }
func boolV(t string) Value                          { return Value{K: vScalar, T: t, S: SBool, Typ: types.Typ[types.Bool]} }
func intV(t string) Value                           { return Value{K: vScalar, T: t, S: SInt, Typ: types.Typ[types.Int]} }

// LValue kinds
type lvKind int

const (
	lvLocal lvKind = iota
	lvHeap         // field of a heap struct: family root + path, at ref
	lvElem         // slice element
	lvMapElem
	lvGlobal
	lvGhost // ghost variable (possibly indexed)
	lvDeref // *p for pointer to non-struct
	lvBlank
)

type LValue struct {
	K       lvKind
	Obj     types.Object // local
	Path    []string     // path inside a local composite
	Root    string       // heap: struct type key
	Prefix  string       // heap: leaf path prefix ("a.b.")
	Ref     string       // heap ref term / slice arr / map ref
	Idx     string       // elem index / map key
	IdxS    Sort
	Typ     types.Type // type of the location
	ElemKey string     // family key for elem/map
	Name    string     // ghost name / global name
	Idxs    []Value    // ghost index chain
	MapTyp  *types.Map
	rootT   types.Type
	whole   bool
}

type leaf struct {
	path string
	sort Sort
	typ  types.Type
}

// Deferred call
type Deferred struct {
	Call   *ast.CallExpr
	Lit    *ast.FuncLit // deferred literal executed inline
	Recv   *Value
	Args   []Value
	Fun    Value
	Callee types.Object
	Env    map[types.Object]Value // unused
	RecoverAll bool // synthetic: recover any in-flight panic (helpers that run a function and swallow its panic)
}

type Frame struct {
	defers  []Deferred
	results []types.Object // named result objects (or synthetic)
	resVals []Value        // values for unnamed results
	fn      *ast.FuncType
	isLit   bool
	retK    func(st *State, vals []Value) // continuation for literal calls
	panicAtEntry bool // the frame was entered while a panic was already unwinding (inline cleanup literals)
}

// State is a symbolic state on one path.
type State struct {
	env        map[types.Object]Value
	heap       map[string]string
	pc         []string
	frames     []*Frame
	panicking  bool
	panicVal   string
	held       map[string]bool
	heapEpoch  int // number of havoc-everything events so far: families first read afterwards must not alias the entry version
	ghostEpoch int
	lets       map[string]Value
	dead       bool
	trace      []string
	ghostCnt   map[string]string
	inDeferLit int
	recovered  bool
}

func (st *State) clone() *State {
	n := &State{env: make(map[types.Object]Value, len(st.env)), heap: make(map[string]string, len(st.heap)),
		pc: append([]string(nil), st.pc...), heapEpoch: st.heapEpoch, ghostEpoch: st.ghostEpoch, panicking: st.panicking, panicVal: st.panicVal, inDeferLit: st.inDeferLit, recovered: st.recovered,
		held: map[string]bool{}, lets: map[string]Value{}, trace: append([]string(nil), st.trace...)}
	for k, v := range st.env {
		n.env[k] = v
	}
	for k, v := range st.heap {
		n.heap[k] = v
	}
	for k, v := range st.held {
		n.held[k] = v
	}
	for k, v := range st.lets {
		n.lets[k] = v
	}
	for _, f := range st.frames {
		nf := *f
		nf.defers = append([]Deferred(nil), f.defers...)
		nf.resVals = append([]Value(nil), f.resVals...)
		n.frames = append(n.frames, &nf)
	}
	return n
}

func (st *State) assume(t string) {
	if t == "true" || t == "" {
		return
	}
	st.pc = append(st.pc, t)
}

func (st *State) top() *Frame { return st.frames[len(st.frames)-1] }

// ---- sorts and leaves ----

func (u *Unit) floatSort() Sort {
	if u.floatIEEE {
		return SFP
	}
	return SReal
}

// sortOf returns the scalar sort of a Go type, or "" for composite types.
func (u *Unit) sortOf(t types.Type) Sort {
	if t == nil {
		return SRef
	}
	switch tt := t.(type) {
	case *types.Basic:
		info := tt.Info()
		switch {
		case info&types.IsBoolean != 0:
			return SBool
		case info&types.IsInteger != 0:
			return SInt
		case info&types.IsFloat != 0:
			return u.floatSort()
		case info&types.IsString != 0:
			return SRef
		case tt.Kind() == types.UntypedNil:
			return SRef
		case tt.Kind() == types.UnsafePointer:
			return SRef
		}
		return SRef
	case *types.Named:
		return u.sortOf(tt.Underlying())
	case *types.Alias:
		return u.sortOf(types.Unalias(tt))
	case *types.Pointer, *types.Interface, *types.Signature, *types.Chan, *types.Map:
		return SRef
	case *types.Struct, *types.Slice, *types.Array:
		return ""
	case *types.TypeParam:
		// numeric constraints -> Real (float real) ; everything else Ref
		if isNumericConstraint(tt) {
			return SReal
		}
		return SRef
	case *types.Tuple:
		return ""
	}
	return SRef
}

func isNumericConstraint(tp *types.TypeParam) bool {
	iface, ok := tp.Constraint().Underlying().(*types.Interface)
	if !ok {
		return false
	}
	numeric := false
	for i := 0; i < iface.NumEmbeddeds(); i++ {
		if un, ok := iface.EmbeddedType(i).(*types.Union); ok {
			all := true
			for j := 0; j < un.Len(); j++ {
				b, ok := un.Term(j).Type().Underlying().(*types.Basic)
				if !ok || b.Info()&types.IsNumeric == 0 {
					all = false
				}
			}
			if all && un.Len() > 0 {
				numeric = true
			}
		} else if nt, ok := iface.EmbeddedType(i).(*types.Named); ok {
			if it, ok := nt.Underlying().(*types.Interface); ok {
				_ = it
				// recurse on named constraint
				for k := 0; k < it.NumEmbeddeds(); k++ {
					if un, ok := it.EmbeddedType(k).(*types.Union); ok && un.Len() > 0 {
						all := true
						for j := 0; j < un.Len(); j++ {
							b, ok := un.Term(j).Type().Underlying().(*types.Basic)
							if !ok || b.Info()&types.IsNumeric == 0 {
								all = false
							}
						}
						if all {
							numeric = true
						}
					}
				}
			}
		}
	}
	return numeric
}

// typeKey gives a stable name for a type used in heap family names.
func typeKey(t types.Type) string {
	if t == nil {
		return "nil"
	}
	switch tt := t.(type) {
	case *types.Named:
		o := tt.Obj()
		if o.Pkg() != nil {
			return o.Pkg().Name() + "." + o.Name()
		}
		return o.Name()
	case *types.Alias:
		return typeKey(types.Unalias(tt))
	case *types.Pointer:
		return "*" + typeKey(tt.Elem())
	case *types.Slice:
		return "[]" + typeKey(tt.Elem())
	case *types.Array:
		return fmt.Sprintf("[%d]%s", tt.Len(), typeKey(tt.Elem()))
	case *types.Map:
		return "map[" + typeKey(tt.Key()) + "]" + typeKey(tt.Elem())
	case *types.Basic:
		return tt.Name()
	case *types.Interface:
		if tt.Empty() {
			return "any"
		}
		return "iface"
	case *types.Struct:
		var fs []string
		for i := 0; i < tt.NumFields(); i++ {
			fs = append(fs, tt.Field(i).Name())
		}
		return "struct{" + strings.Join(fs, ",") + "}"
	case *types.TypeParam:
		return tt.Obj().Name()
	case *types.Signature:
		return "func"
	case *types.Chan:
		return "chan"
	}
	return strings.ReplaceAll(t.String(), " ", "_")
}

func structOf(t types.Type) (*types.Struct, bool) {
	if t == nil {
		return nil, false
	}
	s, ok := t.Underlying().(*types.Struct)
	return s, ok
}

func isSliceT(t types.Type) (*types.Slice, bool) {
	if t == nil {
		return nil, false
	}
	s, ok := t.Underlying().(*types.Slice)
	return s, ok
}

func isArrayT(t types.Type) (*types.Array, bool) {
	if t == nil {
		return nil, false
	}
	s, ok := t.Underlying().(*types.Array)
	return s, ok
}

// leaves enumerates the scalar leaves of a type.
func (u *Unit) leaves(t types.Type) []leaf {
	var out []leaf
	var rec func(t types.Type, prefix string, depth int)
	rec = func(t types.Type, prefix string, depth int) {
		if depth > 6 {
			out = append(out, leaf{prefix, SRef, t})
			return
		}
		if st, ok := structOf(t); ok {
			if isOpaqueStruct(t) {
				// sync.Mutex etc.: no leaves
				return
			}
			for i := 0; i < st.NumFields(); i++ {
				f := st.Field(i)
				rec(f.Type(), prefix+f.Name()+".", depth+1)
			}
			return
		}
		if sl, ok := isSliceT(t); ok {
			out = append(out, leaf{prefix + "#arr", SRef, t}, leaf{prefix + "#len", SInt, t})
			if ss := u.setSortOf(sl.Elem()); ss != "" {
				out = append(out, leaf{prefix + "#set", ss, t})
			}
			return
		}
		if _, ok := isArrayT(t); ok {
			out = append(out, leaf{prefix + "#arr", SRef, t}, leaf{prefix + "#len", SInt, t})
			return
		}
		out = append(out, leaf{strings.TrimSuffix(prefix, "."), u.sortOf(t), t})
	}
	rec(t, "", 0)
	return out
}

func isOpaqueStruct(t types.Type) bool {
	n, ok := t.(*types.Named)
	if !ok {
		return false
	}
	if n.Obj().Pkg() == nil {
		return false
	}
	p := n.Obj().Pkg().Path()
	switch p {
	case "sync", "sync/atomic":
		return true
	}
	return false
}

// build constructs a Value of type t, calling rd for every leaf path.
func (u *Unit) build(t types.Type, prefix string, rd func(path string, s Sort, t types.Type) string) Value {
	if st, ok := structOf(t); ok {
		v := Value{K: vStruct, Typ: t, Comp: map[string]Value{}}
		if isOpaqueStruct(t) {
			return v
		}
		for i := 0; i < st.NumFields(); i++ {
			f := st.Field(i)
			v.Comp[f.Name()] = u.build(f.Type(), prefix+f.Name()+".", rd)
		}
		return v
	}
	_, isS := isSliceT(t)
	_, isA := isArrayT(t)
	if isS || isA {
		v := Value{K: vSlice, Typ: t, Comp: map[string]Value{}}
		v.Comp["#arr"] = scalar(rd(prefix+"#arr", SRef, t), SRef, nil)
		v.Comp["#len"] = scalar(rd(prefix+"#len", SInt, t), SInt, types.Typ[types.Int])
		if sl, ok := isSliceT(t); ok {
			if ss := u.setSortOf(sl.Elem()); ss != "" {
				v.Comp["#set"] = Value{K: vScalar, T: rd(prefix+"#set", ss, t), S: ss}
			}
		}
		return v
	}
	s := u.sortOf(t)
	return scalar(rd(strings.TrimSuffix(prefix, "."), s, t), s, t)
}

// walk enumerates leaves of a value with their paths.
func walkValue(v Value, prefix string, f func(path string, leafV Value)) {
	switch v.K {
	case vStruct:
		var ks []string
		for k := range v.Comp {
			ks = append(ks, k)
		}
		sort.Strings(ks)
		for _, k := range ks {
			walkValue(v.Comp[k], prefix+k+".", f)
		}
	case vSlice:
		f(prefix+"#arr", v.Comp["#arr"])
		f(prefix+"#len", v.Comp["#len"])
		if sv, ok := v.Comp["#set"]; ok {
			f(prefix+"#set", sv)
		}
	default:
		f(strings.TrimSuffix(prefix, "."), v)
	}
}

func quote(s string) string {
	if strings.ContainsAny(s, " |\\") {
		s = strings.NewReplacer(" ", "_", "|", "_", "\\", "_").Replace(s)
	}
	return "|" + s + "|"
}

// setSortOf: slices of scalar elements carry a ghost set view "#set" (the set of their elements) in the slice header.
// It is maintained by make, literals, append and reslicing; element reads add membership facts. Element writes through an
// index are not reflected (a unit that both writes elements and uses has() in its contracts is outside the subset).
func (u *Unit) setSortOf(elem types.Type) Sort {
	s := u.sortOf(elem)
	if s == "" || s == SFP {
		return ""
	}
	return arraySort(s, SBool)
}

func (u *Unit) emptySet(ss Sort) string { return fmt.Sprintf("((as const %s) false)", ss) }

// withSet attaches a set view to a freshly built slice value.
func (u *Unit) withSet(v Value, set string) Value {
	sl, ok := isSliceT(v.Typ)
	if !ok {
		return v
	}
	ss := u.setSortOf(sl.Elem())
	if ss == "" {
		return v
	}
	if set == "" {
		set = u.fresh("set", ss)
	}
	v.Comp["#set"] = Value{K: vScalar, T: set, S: ss}
	return v
}
