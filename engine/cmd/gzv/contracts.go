package main

import (
	"bufio"
	"fmt"
	"go/ast"
	"go/parser"
	"os"
	"regexp"
	"strconv"
	"strings"
)

// Clause is one contract expression.
type Clause struct {
	Text string
	Expr ast.Expr
	File string
	Line int
}

type LoopSpec struct {
	Invariants []Clause
	Decreases  *Clause
	Modifies   []Clause
	HasMod     bool
	ListIter   *Clause // "listiter e in l": checked container/list traversal idiom
}

type GhostAssign struct {
	Lemma ast.Expr // "lemma name(args)": instantiate a proved lemma here instead of assigning
	LHS  ast.Expr
	RHS  ast.Expr
	Text string
	File string
	Line int
}

type SpecFunc struct {
	Name    string
	Params  []SpecParam
	Result  ast.Expr // type expr (may be nil = bool)
	Body    ast.Expr
	File    string
	Line    int
	PkgPath string
	Func    bool // emitted as an SMT function with a definitional axiom (usable as a quantifier trigger) instead of a macro
}

type SpecParam struct {
	Name string
	Type ast.Expr
}

type GhostVar struct {
	Name    string
	Type    ast.Expr
	PkgPath string
	File    string
	Line    int
}

type LockInv struct {
	TypeName string // struct type (qualified by pkg path)
	Field    string // mutex field
	Recv     string // name bound to the object
	Guarded  []string
	Owned    []string // guarded map fields whose maps are private to the type (never leak)
	Invs     []Clause
	PkgPath  string
}

// Contract is the contract of one function, method, interface method or closure.
type Contract struct {
	Key             string // normalized key, e.g. "(*pkg/path.T).m", "pkg/path.f", with "#closureK" suffix for closures
	Header          string
	PkgPath         string
	File            string
	Line            int
	RecvName        string
	ParamNames      []string
	HasNames        bool
	ResultNames     []string
	Closure         int // -1: the function itself
	Props           []string
	Requires        []Clause
	Ensures         []Clause
	EnsuresLocal    []Clause // proved at the function's exits, never handed to callers (may talk about the function's own locals)
	EnsuresPanicLoc []Clause // the same for exits by panic
	NoMethods       []string // "T: m1, m2": type T of this package declares none of these methods itself (they stay promoted)
	EnsuresPanic    []Clause
	HasEnsuresPanic bool
	Modifies        []Clause
	HasMod          bool
	Loops           map[string]*LoopSpec
	CallAsserts     map[string][]Clause
	CallAssumes     map[string][]Clause
	CallEstablishes map[string][]Clause
	GhostAt         map[string][]GhostAssign
	Lets            []GhostAssign // let name = expr (evaluated at entry)
	Flags           map[string]bool
	Extern          bool        // no body to verify (trusted contract)
	Captures        []SpecParam // for closures: extra typed names
	Inline          bool
	IterFn          string // callback-iteration clause: the callee calls parameter IterFn once for idx = 0..IterCount-1 with argument IterArg(idx)
	IterCount       Clause
	IterArg         Clause
	CallInvs        map[string][]Clause
	CallMods        map[string][]Clause // call X#k: modifies ... (assumed frame of an opaque callback)
}

type ContractSet struct {
	Funcs      map[string]*Contract
	Order      []*Contract
	Specs      map[string]*SpecFunc // key: pkgpath + "." + name, and bare name for global specs
	Ghosts     map[string]*GhostVar
	GhostOrder []*GhostVar
	LockInvs   map[string]*LockInv // key: pkgpath.Type + "." + field
	Lemmas     []*Lemma
	Lua        []*LuaContract
	TypeInvs   map[string]*TypeInv // key: pkgpath.TypeName
	Dropped    []string // call prefixes treated as no-ops
	Pure       []string
	Errors     []string
}

// TypeInv is an object invariant: holds for every allocated object of the type whenever none of its methods is running.
type TypeInv struct {
	TypeName string
	Recv     string
	Invs     []Clause
	PkgPath  string
}

type Lemma struct {
	Name    string
	Props   []string
	Params  []SpecParam
	Hyps    []Clause
	Goal    Clause
	PkgPath string
	File    string
	Line    int
	Flags   map[string]bool
}

func newContractSet() *ContractSet {
	return &ContractSet{Funcs: map[string]*Contract{}, Specs: map[string]*SpecFunc{}, Ghosts: map[string]*GhostVar{}, LockInvs: map[string]*LockInv{}, TypeInvs: map[string]*TypeInv{}}
}

var clauseKeywords = map[string]bool{
	"requires": true, "ensures": true, "ensures_local": true, "ensures_panic_local": true, "nomethods": true, "ensures_panic": true, "modifies": true, "loop": true, "call": true,
	"ghost": true, "property": true, "float": true, "overflow": true, "trusted": true, "pure": true, "nopanic": true,
	"may_panic": true, "func": true, "spec": true, "lockinv": true, "guarded_by": true, "owns": true, "extern": true, "lemma": true,
	"let": true, "captures": true, "hyp": true, "goal": true, "drop": true, "purepkg": true, "flag": true, "results": true,
	"inline": true, "allocates": true, "havoc_heap": true, "package": true, "specfn": true, "iterates": true, "typeinv": true, "lua": true, "keys": true, "args": true, "intargs": true,
}

func stripComment(s string) string {
	// "// ..." trailing comment inside a //@ line (two slashes preceded by space)
	if i := strings.Index(s, " //"); i >= 0 {
		return strings.TrimSpace(s[:i])
	}
	return s
}

// readLogicalLines extracts //@ lines and joins continuation lines.
type logicalLine struct {
	text string
	line int
}

func readLogicalLines(path string) ([]logicalLine, error) {
	f, err := os.Open(path)
	if err != nil {
		return nil, err
	}
	defer f.Close()
	var out []logicalLine
	sc := bufio.NewScanner(f)
	sc.Buffer(make([]byte, 1<<20), 1<<20)
	ln := 0
	for sc.Scan() {
		ln++
		t := strings.TrimSpace(sc.Text())
		if !strings.HasPrefix(t, "//@") {
			continue
		}
		t = strings.TrimSpace(t[3:])
		t = stripComment(t)
		if t == "" {
			continue
		}
		first := t
		if i := strings.IndexAny(t, " \t("); i >= 0 {
			first = t[:i]
		}
		if clauseKeywords[first] || len(out) == 0 {
			out = append(out, logicalLine{t, ln})
		} else {
			out[len(out)-1].text += " " + t
		}
	}
	return out, sc.Err()
}

var funcHdrRe = regexp.MustCompile(`^func\s*(\(([^)]*)\))?\s*([A-Za-z_][A-Za-z0-9_./\-]*)\s*(\(([^)]*)\))?\s*(closure\s+(\d+))?\s*$`)

func normGeneric(s string) string {
	// strip [..] type argument lists
	for {
		i := strings.Index(s, "[")
		if i < 0 {
			return s
		}
		depth := 0
		j := i
		for ; j < len(s); j++ {
			if s[j] == '[' {
				depth++
			} else if s[j] == ']' {
				depth--
				if depth == 0 {
					break
				}
			}
		}
		if j >= len(s) {
			return s
		}
		s = s[:i] + s[j+1:]
	}
}

// parseFuncHeader returns the normalized key.
func parseFuncHeader(hdr, pkgPath string) (key, recvName string, paramNames []string, hasNames bool, closure int, err error) {
	m := funcHdrRe.FindStringSubmatch(hdr)
	if m == nil {
		return "", "", nil, false, -1, fmt.Errorf("bad func header %q", hdr)
	}
	closure = -1
	recv := strings.TrimSpace(m[2])
	name := m[3]
	if m[4] != "" {
		hasNames = true
		for _, p := range strings.Split(m[5], ",") {
			p = strings.TrimSpace(p)
			if p != "" {
				paramNames = append(paramNames, p)
			}
		}
	}
	if m[7] != "" {
		closure, _ = strconv.Atoi(m[7])
	}
	qualify := func(t string) string {
		// t is a type name possibly with package path; qualify with pkgPath if bare
		if strings.Contains(t, ".") {
			return t
		}
		return pkgPath + "." + t
	}
	if recv != "" {
		recv = normGeneric(recv)
		parts := strings.Fields(recv)
		typ := parts[len(parts)-1]
		if len(parts) > 1 {
			recvName = parts[0]
		}
		ptr := strings.HasPrefix(typ, "*")
		typ = strings.TrimPrefix(typ, "*")
		if ptr {
			key = "(*" + qualify(typ) + ")." + name
		} else {
			key = "(" + qualify(typ) + ")." + name
		}
	} else {
		if strings.Contains(name, ".") {
			key = name
		} else {
			key = pkgPath + "." + name
		}
	}
	if closure >= 0 {
		key = fmt.Sprintf("%s#closure%d", key, closure)
	}
	return
}

func parseExprAt(text, file string, line int) (ast.Expr, error) {
	e, err := parser.ParseExpr(text)
	if err != nil {
		return nil, fmt.Errorf("%s:%d: cannot parse %q: %v", file, line, text, err)
	}
	return e, nil
}

func (cs *ContractSet) clause(text, file string, line int) Clause {
	e, err := parseExprAt(text, file, line)
	if err != nil {
		cs.Errors = append(cs.Errors, err.Error())
	}
	return Clause{Text: text, Expr: e, File: file, Line: line}
}

func parseParams(s string, cs *ContractSet, file string, line int) []SpecParam {
	// "a, b int, c *T" — Go-style grouping
	var ps []SpecParam
	var pending []string
	for _, part := range splitTop(s, ',') {
		part = strings.TrimSpace(part)
		if part == "" {
			continue
		}
		i := strings.IndexAny(part, " \t")
		if i < 0 {
			pending = append(pending, part)
			continue
		}
		name := part[:i]
		te, err := parseExprAt(strings.TrimSpace(part[i+1:]), file, line)
		if err != nil {
			cs.Errors = append(cs.Errors, err.Error())
		}
		for _, p := range pending {
			ps = append(ps, SpecParam{p, te})
		}
		pending = nil
		ps = append(ps, SpecParam{name, te})
	}
	for _, p := range pending {
		cs.Errors = append(cs.Errors, fmt.Sprintf("%s:%d: parameter %s without type", file, line, p))
	}
	return ps
}

func splitTop(s string, sep byte) []string {
	var out []string
	depth := 0
	last := 0
	for i := 0; i < len(s); i++ {
		switch s[i] {
		case '(', '[', '{':
			depth++
		case ')', ']', '}':
			depth--
		default:
			if s[i] == sep && depth == 0 {
				out = append(out, s[last:i])
				last = i + 1
			}
		}
	}
	out = append(out, s[last:])
	return out
}

func matchParen(s string, open int) int {
	depth := 0
	for i := open; i < len(s); i++ {
		switch s[i] {
		case '(':
			depth++
		case ')':
			depth--
			if depth == 0 {
				return i
			}
		}
	}
	return -1
}

// ParseFile parses one contract file (package contract file in /repo or extern spec in /verif/specs).
func (cs *ContractSet) ParseFile(path, pkgPath string) error {
	lines, err := readLogicalLines(path)
	if err != nil {
		return err
	}
	var cur *Contract
	var curLemma *Lemma
	var curLock *LockInv
	var curLua *LuaContract
	for _, ll := range lines {
		t := ll.text
		kw := t
		rest := ""
		if i := strings.IndexAny(t, " \t"); i >= 0 {
			kw = t[:i]
			rest = strings.TrimSpace(t[i+1:])
		}
		if strings.HasPrefix(t, "func(") || strings.HasPrefix(t, "func (") {
			kw = "func"
		}
		errf := func(format string, a ...any) {
			cs.Errors = append(cs.Errors, fmt.Sprintf("%s:%d: ", path, ll.line)+fmt.Sprintf(format, a...))
		}
		if kw == "lua" {
			cur, curLemma, curLock = nil, nil, nil
			cs.parseLuaLine(&curLua, kw, rest, path, ll.line)
			continue
		}
		if curLua != nil {
			if kw == "func" || kw == "extern" || kw == "spec" || kw == "specfn" || kw == "lemma" || kw == "lockinv" || (kw == "ghost" && strings.HasPrefix(rest, "var ")) {
				curLua = nil
			} else {
				if !cs.parseLuaLine(&curLua, kw, rest, path, ll.line) {
					errf("unknown lua clause %q", kw)
				}
				continue
			}
		}
		switch kw {
		case "package":
			pkgPath = rest
		case "drop":
			cs.Dropped = append(cs.Dropped, strings.Fields(rest)...)
		case "purepkg":
			cs.Pure = append(cs.Pure, strings.Fields(rest)...)
		case "extern", "func":
			curLemma, curLock = nil, nil
			hdr := t
			ext := false
			if kw == "extern" {
				ext = true
				hdr = rest
			}
			key, rn, pn, hn, cl, err := parseFuncHeader(hdr, pkgPath)
			if err != nil {
				errf("%v", err)
				cur = nil
				continue
			}
			if old, dup := cs.Funcs[key]; dup {
				errf("duplicate contract for %s (first at %s:%d)", key, old.File, old.Line)
			}
			cur = &Contract{Key: key, Header: hdr, PkgPath: pkgPath, File: path, Line: ll.line, RecvName: rn, ParamNames: pn, HasNames: hn,
				Closure: cl, Loops: map[string]*LoopSpec{}, CallAsserts: map[string][]Clause{}, CallAssumes: map[string][]Clause{},
				GhostAt: map[string][]GhostAssign{}, Flags: map[string]bool{}, Extern: ext, CallInvs: map[string][]Clause{}}
			cs.Funcs[key] = cur
			cs.Order = append(cs.Order, cur)
		case "spec", "specfn":
			cur, curLemma, curLock = nil, nil, nil
			// spec name(params) type = body
			open := strings.Index(rest, "(")
			if open < 0 {
				errf("bad spec")
				continue
			}
			cl := matchParen(rest, open)
			eq := strings.Index(rest[cl:], "=")
			if cl < 0 || eq < 0 {
				errf("bad spec")
				continue
			}
			name := strings.TrimSpace(rest[:open])
			params := parseParams(rest[open+1:cl], cs, path, ll.line)
			rt := strings.TrimSpace(rest[cl+1 : cl+eq])
			body := strings.TrimSpace(rest[cl+eq+1:])
			sf := &SpecFunc{Name: name, Params: params, File: path, Line: ll.line, PkgPath: pkgPath, Func: kw == "specfn"}
			if rt != "" {
				sf.Result, err = parseExprAt(rt, path, ll.line)
				if err != nil {
					errf("%v", err)
				}
			}
			sf.Body, err = parseExprAt(body, path, ll.line)
			if err != nil {
				errf("%v", err)
			}
			cs.Specs[pkgPath+"."+name] = sf
		case "lemma":
			cur, curLock = nil, nil
			// lemma name(params)
			open := strings.Index(rest, "(")
			name := rest
			var params []SpecParam
			if open >= 0 {
				cl := matchParen(rest, open)
				name = strings.TrimSpace(rest[:open])
				params = parseParams(rest[open+1:cl], cs, path, ll.line)
			}
			curLemma = &Lemma{Name: name, Params: params, PkgPath: pkgPath, File: path, Line: ll.line, Flags: map[string]bool{}}
			cs.Lemmas = append(cs.Lemmas, curLemma)
		case "hyp":
			if curLemma == nil {
				errf("hyp outside lemma")
				continue
			}
			curLemma.Hyps = append(curLemma.Hyps, cs.clause(rest, path, ll.line))
		case "goal":
			if curLemma == nil {
				errf("goal outside lemma")
				continue
			}
			curLemma.Goal = cs.clause(rest, path, ll.line)
		case "lockinv":
			// lockinv (c *container) lock: expr     |   lockinv (c *container) lock
			cur, curLemma = nil, nil
			if strings.HasPrefix(rest, "global ") {
				// lockinv global mu: expr   |   lockinv global mu      (a package-level mutex guarding package-level variables)
				after := strings.TrimSpace(rest[len("global "):])
				field := after
				expr := ""
				if i := strings.Index(after, ":"); i >= 0 {
					field = strings.TrimSpace(after[:i])
					expr = strings.TrimSpace(after[i+1:])
				}
				k := pkgPath + ".<global>." + field
				curLock = cs.LockInvs[k]
				if curLock == nil {
					curLock = &LockInv{TypeName: pkgPath + ".<global>", Field: field, Recv: "", PkgPath: pkgPath}
					cs.LockInvs[k] = curLock
				}
				if expr != "" {
					curLock.Invs = append(curLock.Invs, cs.clause(expr, path, ll.line))
				}
				continue
			}
			open := strings.Index(rest, "(")
			cl := matchParen(rest, open)
			if open != 0 || cl < 0 {
				errf("bad lockinv header")
				continue
			}
			recv := strings.Fields(normGeneric(rest[1:cl]))
			if len(recv) != 2 {
				errf("bad lockinv receiver")
				continue
			}
			after := strings.TrimSpace(rest[cl+1:])
			field := after
			expr := ""
			if i := strings.Index(after, ":"); i >= 0 {
				field = strings.TrimSpace(after[:i])
				expr = strings.TrimSpace(after[i+1:])
			}
			tn := strings.TrimPrefix(recv[1], "*")
			if !strings.Contains(tn, ".") {
				tn = pkgPath + "." + tn
			}
			k := tn + "." + field
			curLock = cs.LockInvs[k]
			if curLock == nil {
				curLock = &LockInv{TypeName: tn, Field: field, Recv: recv[0], PkgPath: pkgPath}
				cs.LockInvs[k] = curLock
			}
			if expr != "" {
				curLock.Invs = append(curLock.Invs, cs.clause(expr, path, ll.line))
			}
		case "typeinv":
			// typeinv (b *bucket): expr
			cur, curLemma, curLock = nil, nil, nil
			open := strings.Index(rest, "(")
			cl := matchParen(rest, open)
			col := strings.Index(rest, ":")
			if open != 0 || cl < 0 || col < cl {
				errf("bad typeinv header")
				continue
			}
			recv := strings.Fields(normGeneric(rest[1:cl]))
			if len(recv) != 2 {
				errf("bad typeinv receiver")
				continue
			}
			tn := strings.TrimPrefix(recv[1], "*")
			if !strings.Contains(tn, ".") {
				tn = pkgPath + "." + tn
			}
			ti := cs.TypeInvs[tn]
			if ti == nil {
				ti = &TypeInv{TypeName: tn, Recv: recv[0], PkgPath: pkgPath}
				cs.TypeInvs[tn] = ti
			}
			ti.Invs = append(ti.Invs, cs.clause(strings.TrimSpace(rest[col+1:]), path, ll.line))
		case "guarded_by":
			if curLock == nil {
				errf("guarded_by outside lockinv")
				continue
			}
			for _, f := range strings.Split(rest, ",") {
				curLock.Guarded = append(curLock.Guarded, strings.TrimSpace(f))
			}
		case "owns":
			if curLock == nil {
				errf("owns outside lockinv")
				continue
			}
			for _, f := range strings.Split(rest, ",") {
				curLock.Owned = append(curLock.Owned, strings.TrimSpace(f))
			}
		case "ghost":
			if strings.HasPrefix(rest, "var ") {
				cur, curLemma, curLock = nil, nil, nil
				fs := strings.SplitN(strings.TrimSpace(rest[4:]), " ", 2)
				if len(fs) != 2 {
					errf("bad ghost var")
					continue
				}
				te, err := parseExprAt(strings.TrimSpace(fs[1]), path, ll.line)
				if err != nil {
					errf("%v", err)
				}
				gv := &GhostVar{Name: fs[0], Type: te, PkgPath: pkgPath, File: path, Line: ll.line}
				cs.Ghosts[fs[0]] = gv
				cs.GhostOrder = append(cs.GhostOrder, gv)
				continue
			}
			if !strings.HasPrefix(rest, "at ") || cur == nil {
				errf("bad ghost clause")
				continue
			}
			r := strings.TrimSpace(rest[3:])
			i := strings.Index(r, ":")
			if i < 0 {
				errf("bad ghost at")
				continue
			}
			anchor := strings.TrimSpace(r[:i])
			asg := strings.TrimSpace(r[i+1:])
			if strings.HasPrefix(asg, "lemma ") {
				le, err := parseExprAt(strings.TrimSpace(asg[6:]), path, ll.line)
				if err != nil {
					errf("%v", err)
					continue
				}
				cur.GhostAt[anchor] = append(cur.GhostAt[anchor], GhostAssign{Lemma: le, Text: asg, File: path, Line: ll.line})
				continue
			}
			ga, err := parseGhostAssign(asg, path, ll.line)
			if err != nil {
				errf("%v", err)
				continue
			}
			cur.GhostAt[anchor] = append(cur.GhostAt[anchor], ga)
		default:
			if curLemma != nil {
				switch kw {
				case "property":
					curLemma.Props = append(curLemma.Props, strings.Fields(rest)...)
				case "flag":
					for _, f := range strings.Fields(rest) {
						curLemma.Flags[f] = true
					}
				default:
					errf("unknown lemma clause %q", kw)
				}
				continue
			}
			if cur == nil {
				errf("clause %q outside a func block", kw)
				continue
			}
			switch kw {
			case "property":
				cur.Props = append(cur.Props, strings.Fields(rest)...)
			case "requires":
				cur.Requires = append(cur.Requires, cs.clause(rest, path, ll.line))
			case "ensures":
				cur.Ensures = append(cur.Ensures, cs.clause(rest, path, ll.line))
			case "ensures_local":
				cur.EnsuresLocal = append(cur.EnsuresLocal, cs.clause(rest, path, ll.line))
			case "ensures_panic_local":
				cur.EnsuresPanicLoc = append(cur.EnsuresPanicLoc, cs.clause(rest, path, ll.line))
			case "nomethods":
				cur.NoMethods = append(cur.NoMethods, rest)
			case "ensures_panic":
				cur.HasEnsuresPanic = true
				cur.EnsuresPanic = append(cur.EnsuresPanic, cs.clause(rest, path, ll.line))
			case "modifies":
				cur.HasMod = true
				if rest != "nothing" {
					for _, m := range splitTop(rest, ',') {
						cur.Modifies = append(cur.Modifies, cs.clause(strings.TrimSpace(m), path, ll.line))
					}
				}
			case "results":
				for _, p := range strings.Split(rest, ",") {
					cur.ResultNames = append(cur.ResultNames, strings.TrimSpace(p))
				}
			case "captures":
				cur.Captures = append(cur.Captures, parseParams(rest, cs, path, ll.line)...)
			case "let":
				ga, err := parseGhostAssign(rest, path, ll.line)
				if err != nil {
					errf("%v", err)
					continue
				}
				cur.Lets = append(cur.Lets, ga)
			case "loop":
				i := strings.Index(rest, ":")
				if i < 0 {
					errf("bad loop clause")
					continue
				}
				id := strings.TrimSpace(rest[:i])
				body := strings.TrimSpace(rest[i+1:])
				ls := cur.Loops[id]
				if ls == nil {
					ls = &LoopSpec{}
					cur.Loops[id] = ls
				}
				bk := body
				brest := ""
				if j := strings.IndexAny(body, " \t"); j >= 0 {
					bk = body[:j]
					brest = strings.TrimSpace(body[j+1:])
				}
				if strings.HasPrefix(body, "listiter(") {
					bk, brest = "listiter", body
				}
				switch bk {
				case "invariant":
					ls.Invariants = append(ls.Invariants, cs.clause(brest, path, ll.line))
				case "decreases":
					c := cs.clause(brest, path, ll.line)
					ls.Decreases = &c
				case "modifies":
					ls.HasMod = true
					if brest != "nothing" {
						for _, m := range splitTop(brest, ',') {
							ls.Modifies = append(ls.Modifies, cs.clause(strings.TrimSpace(m), path, ll.line))
						}
					}
				case "listiter":
					c := cs.clause(brest, path, ll.line)
					ls.ListIter = &c
				default:
					errf("unknown loop clause %q", bk)
				}
			case "call":
				i := strings.Index(rest, ":")
				if i < 0 {
					errf("bad call clause")
					continue
				}
				id := strings.TrimSpace(rest[:i])
				body := strings.TrimSpace(rest[i+1:])
				if strings.HasPrefix(body, "assert ") {
					cur.CallAsserts[id] = append(cur.CallAsserts[id], cs.clause(strings.TrimSpace(body[7:]), path, ll.line))
				} else if strings.HasPrefix(body, "invariant ") {
					cur.CallInvs[id] = append(cur.CallInvs[id], cs.clause(strings.TrimSpace(body[10:]), path, ll.line))
				} else if strings.HasPrefix(body, "assume ") {
					cur.CallAssumes[id] = append(cur.CallAssumes[id], cs.clause(strings.TrimSpace(body[7:]), path, ll.line))
				} else if strings.HasPrefix(body, "establishes ") {
					// stated assumption about an opaque callback: after it returned, this holds (listed in the evidence)
					if cur.CallEstablishes == nil {
						cur.CallEstablishes = map[string][]Clause{}
					}
					cur.CallEstablishes[id] = append(cur.CallEstablishes[id], cs.clause(strings.TrimSpace(body[12:]), path, ll.line))
				} else if strings.HasPrefix(body, "modifies ") {
					// stated assumption about an opaque callback: it changes at most these locations
					if cur.CallMods == nil {
						cur.CallMods = map[string][]Clause{}
					}
					for _, part := range splitTop(strings.TrimSpace(body[9:]), ',') {
						cur.CallMods[id] = append(cur.CallMods[id], cs.clause(strings.TrimSpace(part), path, ll.line))
					}
				} else {
					errf("bad call clause body")
				}
			case "iterates":
				// iterates <param> count <expr> arg <expr>
				i1 := strings.Index(rest, " count ")
				i2 := strings.Index(rest, " arg ")
				if i1 < 0 || i2 < i1 {
					errf("bad iterates clause (want: iterates <param> count <expr> arg <expr>)")
					continue
				}
				cur.IterFn = strings.TrimSpace(rest[:i1])
				cur.IterCount = cs.clause(strings.TrimSpace(rest[i1+7:i2]), path, ll.line)
				cur.IterArg = cs.clause(strings.TrimSpace(rest[i2+5:]), path, ll.line)
			case "float":
				cur.Flags["float_"+rest] = true
			case "overflow":
				cur.Flags["overflow_"+rest] = true
			case "trusted", "pure", "nopanic", "may_panic", "inline", "allocates", "havoc_heap":
				cur.Flags[kw] = true
			case "flag":
				for _, f := range strings.Fields(rest) {
					cur.Flags[f] = true
				}
			default:
				errf("unknown clause %q", kw)
			}
		}
	}
	return nil
}

func parseGhostAssign(asg, file string, line int) (GhostAssign, error) {
	// find top-level '=' that is not part of ==, <=, >=, !=
	depth := 0
	for i := 0; i < len(asg); i++ {
		switch asg[i] {
		case '(', '[', '{':
			depth++
		case ')', ']', '}':
			depth--
		case '=':
			if depth == 0 {
				if i+1 < len(asg) && asg[i+1] == '=' {
					i++
					continue
				}
				if i > 0 && strings.ContainsRune("<>!=", rune(asg[i-1])) {
					continue
				}
				l, err := parseExprAt(strings.TrimSpace(asg[:i]), file, line)
				if err != nil {
					return GhostAssign{}, err
				}
				r, err := parseExprAt(strings.TrimSpace(asg[i+1:]), file, line)
				if err != nil {
					return GhostAssign{}, err
				}
				return GhostAssign{LHS: l, RHS: r, Text: asg, File: file, Line: line}, nil
			}
		}
	}
	return GhostAssign{}, fmt.Errorf("%s:%d: no '=' in ghost assignment %q", file, line, asg)
}
