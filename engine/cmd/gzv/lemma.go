package main

import (
	"fmt"
	"go/ast"
	"go/token"
	"go/types"
)

func (e *Engine) findLemma(name string) *Lemma {
	for _, l := range e.cs.Lemmas {
		if l.Name == name {
			return l
		}
	}
	return nil
}

// useLemma assumes the instance (hyps => goal) of a lemma that is proved separately for arbitrary parameters.
func (u *Unit) useLemma(st *State, sev *Ev, call ast.Expr) {
	ce, ok := call.(*ast.CallExpr)
	if !ok {
		sev.errorf(token.NoPos, "lemma use must be name(args)")
		return
	}
	name := exprString(ce.Fun)
	l := u.eng.findLemma(name)
	if l == nil {
		sev.errorf(token.NoPos, "unknown lemma %s", name)
		return
	}
	if len(ce.Args) != len(l.Params) {
		sev.errorf(token.NoPos, "lemma %s: want %d arguments", name, len(l.Params))
		return
	}
	sub := &Ev{u: u, st: st, old: sev.old, spec: true, binds: map[string]Value{}, pkg: u.eng.pkgs[l.PkgPath], where: "lemma " + name}
	if sub.pkg == nil {
		sub.pkg = sev.pkg
	}
	for i, p := range l.Params {
		v := sev.expr(ce.Args[i])
		if p.Type != nil {
			if t := sub.resolveType(p.Type); t != nil && v.K == vScalar {
				if s := u.sortOf(t); s == SReal && v.S == SInt {
					v = scalar(toReal(v.T), SReal, t)
				}
			}
		}
		sub.binds[p.Name] = v
	}
	var hyps []string
	for _, h := range l.Hyps {
		hyps = append(hyps, sub.expr(h.Expr).T)
	}
	g := sub.expr(l.Goal.Expr)
	st.assume(implies(and(hyps...), g.T))
	u.eng.mu.Lock()
	u.eng.lemmaUsed[name] = true
	u.eng.mu.Unlock()
}

// runLemmas proves every lemma tagged with the property (and every lemma used by its units) for arbitrary parameters.
func (e *Engine) runLemmas(prop string) []*Obligation {
	var out []*Obligation
	for _, l := range e.cs.Lemmas {
		if !(prop == "" || hasProp(l.Props, prop) || e.lemmaUsed[l.Name]) {
			continue
		}
		u := &Unit{eng: e, name: "lemma/" + l.Name, declared: map[string]bool{}, assumptions: map[string]bool{}, uncontracted: map[string]bool{},
			strLits: map[string]string{}, oblCount: map[string]int{}, loopOrd: map[ast.Stmt]string{}, callOrd: map[*ast.CallExpr]string{},
			litOrd: map[*ast.FuncLit]int{}, allocd: map[string]bool{}, allocT: map[string]types.Type{}, reached: map[string]bool{}, maxPaths: 10, entryHeld: map[string]bool{}}
		u.pkg = e.pkgs[l.PkgPath]
		u.floatIEEE = l.Flags["float_ieee"]
		st := &State{env: map[types.Object]Value{}, heap: map[string]string{}, held: map[string]bool{}, lets: map[string]Value{}}
		u.entry = st
		sev := &Ev{u: u, st: st, old: st, spec: true, binds: map[string]Value{}, pkg: u.pkg, where: "lemma " + l.Name}
		for _, p := range l.Params {
			t := sev.resolveType(p.Type)
			v := u.freshValue(t, p.Name, st)
			sev.binds[p.Name] = v
		}
		for _, h := range l.Hyps {
			st.assume(sev.expr(h.Expr).T)
		}
		u.emitSat(st, "vacuity/hyp", "lemma hypotheses are satisfiable")
		if l.Goal.Expr != nil {
			g := sev.expr(l.Goal.Expr)
			u.emit(st, "goal", g.T, l.Goal.Text)
		}
		u.finalize()
		for _, o := range u.obls {
			o.Property = l.Props
			if o.Kind == "goal" {
				o.Kind = "lemma"
			}
		}
		out = append(out, u.obls...)
	}
	return out
}

var _ = fmt.Sprint
