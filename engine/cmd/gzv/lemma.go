package main

func (e *Engine) runLemmas(prop string) []*Obligation { return nil }

func (e *Engine) runLua(prop string) ([]*Obligation, []string) { return nil, nil }
