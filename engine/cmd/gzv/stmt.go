package main

import (
	"fmt"
	"go/ast"
	"go/token"
	"go/types"
	"strings"

	"golang.org/x/tools/go/types/typeutil"
)

// Ctl carries the continuations for break/continue/return.
type Ctl struct {
	brk   map[string]func(*State)
	cont  map[string]func(*State)
	gotos map[string]func(*State) // backward goto = next iteration of the loop that starts at the label
	ret   func(*State, []Value)
	label string // pending label for the next loop/switch
}

func (c *Ctl) with() *Ctl {
	n := &Ctl{brk: map[string]func(*State){}, cont: map[string]func(*State){}, gotos: map[string]func(*State){}, ret: c.ret}
	for k, v := range c.brk {
		n.brk[k] = v
	}
	for k, v := range c.cont {
		n.cont[k] = v
	}
	for k, v := range c.gotos {
		n.gotos[k] = v
	}
	return n
}

// gotoTarget: is the label of this statement the target of a goto somewhere in stmts?
func gotoTarget(stmts []ast.Stmt, label string) bool {
	found := false
	for _, s := range stmts {
		ast.Inspect(s, func(n ast.Node) bool {
			if _, isLit := n.(*ast.FuncLit); isLit {
				return false
			}
			if b, ok := n.(*ast.BranchStmt); ok && b.Tok == token.GOTO && b.Label != nil && b.Label.Name == label {
				found = true
			}
			return !found
		})
	}
	return found
}

// gotoLoop: `L: s0; s1; ...; goto L; ...` - the statements from the label to the end of the enclosing block are the body of
// a loop named L (contract clauses `loop L: invariant ...`); `goto L` ends an iteration, falling off the end of the block
// leaves the loop.
func (u *Unit) gotoLoop(st *State, stmts []ast.Stmt, label string, c *Ctl, k func(*State)) {
	var ls *LoopSpec
	if u.c != nil {
		ls = u.c.Loops[label]
	}
	body := &ast.BlockStmt{Lbrace: stmts[0].Pos(), List: stmts, Rbrace: stmts[len(stmts)-1].End()}
	bodyPos := stmts[0].Pos()
	if ls == nil {
		u.subsetErr(stmts[0].Pos(), "goto loop %s has no invariant", label)
		return
	}
	u.reached["loop "+label] = true
	u.checkInvariants(st, ls, label, "inv_entry", bodyPos, nil)
	u.havocLoop(st, body, nil, ls, bodyPos)
	u.assumeInvariants(st, ls, label, bodyPos, nil)
	c2 := c.with()
	c2.label = ""
	c2.gotos[label] = func(se *State) {
		u.checkInvariants(se, ls, label, "inv_pres", bodyPos, nil)
	}
	first := stmts[0].(*ast.LabeledStmt).Stmt
	u.stmt(st, first, c2, func(s2 *State) {
		u.block(s2, stmts[1:], c2, k)
	})
}

func (u *Unit) ev(st *State, pos token.Pos) *Ev {
	ev := &Ev{u: u, st: st, old: u.entry, pkg: u.pkg, scopePos: pos, binds: map[string]Value{}}
	if u.guardOn() {
		ev.guardedCheck = func(lv *LValue, path string) { u.checkGuarded(ev, lv.rootT, path, lv.Ref, "write") }
	}
	return ev
}

func (u *Unit) specEv(st *State, pos token.Pos, where string) *Ev {
	return &Ev{u: u, st: st, old: u.entry, spec: true, pkg: u.pkg, scopePos: pos, binds: map[string]Value{}, where: where}
}

func (u *Unit) block(st *State, stmts []ast.Stmt, c *Ctl, k func(*State)) {
	if st.dead {
		return
	}
	if len(stmts) == 0 {
		k(st)
		return
	}
	if ls, ok := stmts[0].(*ast.LabeledStmt); ok && gotoTarget(stmts, ls.Label.Name) {
		if _, inLoop := c.gotos[ls.Label.Name]; !inLoop {
			u.gotoLoop(st, stmts, ls.Label.Name, c, k)
			return
		}
	}
	u.stmt(st, stmts[0], c, func(s2 *State) {
		u.block(s2, stmts[1:], c, k)
	})
}

func (u *Unit) pathBudget() bool {
	u.paths++
	if u.paths > u.maxPaths {
		u.subsetErr(token.NoPos, "path budget of %d exceeded", u.maxPaths)
		return false
	}
	return true
}

// branch forks on a condition.
func (u *Unit) branch(st *State, cond string, thenK, elseK func(*State)) {
	switch cond {
	case "true":
		thenK(st)
		return
	case "false":
		elseK(st)
		return
	}
	if !u.pathBudget() {
		return
	}
	s2 := st.clone()
	st.assume(cond)
	s2.assume(not(cond))
	thenK(st)
	elseK(s2)
}

func (u *Unit) ghostAt(st *State, anchor string, pos token.Pos) {
	u.ghostAtWith(st, anchor, pos, nil)
}

// ghostAtWith runs the ghost statements attached to an anchor; extra names (e.g. ret, ret0.. for the value of the call an
// "after" anchor follows) are visible in them.
func (u *Unit) ghostAtWith(st *State, anchor string, pos token.Pos, extra map[string]Value) {
	if u.c == nil {
		return
	}
	gas := u.c.GhostAt[anchor]
	if len(gas) == 0 {
		return
	}
	u.reached["ghost "+anchor] = true
	for _, ga := range gas {
		sev := u.specEv(st, pos, u.name+" ghost at "+anchor)
		for k, v := range extra {
			sev.binds[k] = v
		}
		if ga.Lemma != nil {
			u.useLemma(st, sev, ga.Lemma)
			continue
		}
		v := sev.expr(ga.RHS)
		if id, ok := ga.LHS.(*ast.Ident); ok {
			// a name that is neither a ghost variable nor a program variable introduces a ghost local
			if _, isGhost := u.eng.cs.Ghosts[id.Name]; !isGhost {
				_, isLet := st.lets[id.Name]
				var obj types.Object
				if u.pkg != nil && pos.IsValid() {
					if sc := u.pkg.Types.Scope().Innermost(pos); sc != nil {
						_, obj = sc.LookupParent(id.Name, pos)
					}
				}
				if isLet || obj == nil {
					st.lets[id.Name] = v
					continue
				}
			}
		}
		lv := sev.lvalue(ga.LHS)
		if lv == nil {
			// new ghost local
			if id, ok := ga.LHS.(*ast.Ident); ok {
				st.lets[id.Name] = v
				continue
			}
			sev.errorf(pos, "bad ghost assignment target %s", ga.Text)
			continue
		}
		sev.assignLV(lv, v)
	}
}

func (u *Unit) stmt(st *State, s ast.Stmt, c *Ctl, k func(*State)) {
	if st.dead {
		return
	}
	switch x := s.(type) {
	case *ast.BlockStmt:
		u.block(st, x.List, c, k)
	case *ast.EmptyStmt:
		k(st)
	case *ast.ExprStmt:
		ev := u.ev(st, x.Pos())
		if call, ok := ast.Unparen(x.X).(*ast.CallExpr); ok {
			if u.tryInlineLitCallStmt(st, call, c, k) {
				return
			}
		}
		if un, ok := ast.Unparen(x.X).(*ast.UnaryExpr); ok && un.Op == token.ARROW {
			ch := ev.expr(un.X)
			u.chanRecvEffect(st, ch)
			k(st)
			return
		}
		ev.expr(x.X)
		if !st.dead {
			k(st)
		}
	case *ast.AssignStmt:
		u.assign(st, x, c, k)
	case *ast.IncDecStmt:
		ev := u.ev(st, x.Pos())
		lv := ev.lvalue(x.X)
		if lv == nil {
			u.subsetErr(x.Pos(), "unsupported inc/dec target")
			return
		}
		cur := ev.readLV(lv)
		op := "+"
		if x.Tok == token.DEC {
			op = "-"
		}
		one := "1"
		if cur.S == SReal {
			one = "1.0"
		}
		nv := ev.arith(scalar(app(op, cur.T, one), cur.S, cur.Typ), x.Pos())
		ev.assignLV(lv, nv)
		k(st)
	case *ast.DeclStmt:
		gd, ok := x.Decl.(*ast.GenDecl)
		if !ok || gd.Tok != token.VAR {
			k(st)
			return
		}
		ev := u.ev(st, x.Pos())
		for _, sp := range gd.Specs {
			vs := sp.(*ast.ValueSpec)
			if len(vs.Values) == 1 && len(vs.Names) > 1 {
				v := ev.expr(vs.Values[0])
				for i, n := range vs.Names {
					if obj := u.pkg.TypesInfo.Defs[n]; obj != nil && i < len(v.Tuple) {
						st.env[obj] = ev.coerce(v.Tuple[i], obj.Type())
					}
				}
				continue
			}
			for i, n := range vs.Names {
				obj := u.pkg.TypesInfo.Defs[n]
				if obj == nil {
					continue
				}
				if i < len(vs.Values) {
					st.env[obj] = ev.coerce(ev.exprWithType(vs.Values[i], obj.Type()), obj.Type())
				} else {
					st.env[obj] = u.zero(obj.Type())
					if nt, ok := obj.Type().(*types.Named); ok && nt.Obj().Pkg() != nil && nt.Obj().Pkg().Path() == "sync" && nt.Obj().Name() == "WaitGroup" {
						as := arraySort(SRef, SInt)
						u.famSort("G:wg", as)
						key := quote("local:" + n.Name)
						u.declare(key, SRef)
						u.setFam(st, "G:wg", as, app("store", u.fam(st, "G:wg", as), key, "0"))
					}
				}
			}
		}
		k(st)
	case *ast.IfStmt:
		u.ifStmt(st, x, c, k)
	case *ast.ReturnStmt:
		u.returnStmt(st, x, c)
	case *ast.ForStmt:
		u.forStmt(st, x, c, k)
	case *ast.RangeStmt:
		u.rangeStmt(st, x, c, k)
	case *ast.SwitchStmt:
		u.switchStmt(st, x, c, k)
	case *ast.TypeSwitchStmt:
		u.typeSwitchStmt(st, x, c, k)
	case *ast.LabeledStmt:
		c2 := c.with()
		c2.label = x.Label.Name
		u.stmt(st, x.Stmt, c2, k)
	case *ast.BranchStmt:
		lbl := ""
		if x.Label != nil {
			lbl = x.Label.Name
		}
		switch x.Tok {
		case token.BREAK:
			if f, ok := c.brk[lbl]; ok {
				f(st)
				return
			}
		case token.CONTINUE:
			if f, ok := c.cont[lbl]; ok {
				f(st)
				return
			}
		case token.GOTO:
			if f, ok := c.gotos[lbl]; ok {
				f(st)
				return
			}
		}
		u.subsetErr(x.Pos(), "unsupported branch statement %s", x.Tok)
	case *ast.DeferStmt:
		u.deferStmt(st, x)
		k(st)
	case *ast.GoStmt:
		// the spawned body is a separate unit; arguments are evaluated here
		ev := u.ev(st, x.Pos())
		var goArgs []Value
		for _, a := range x.Call.Args {
			goArgs = append(goArgs, ev.expr(a))
		}
		// the arguments handed to the spawned function are visible to "call go#k: assert ..." as arg_<param> / arg0..
		var goNames []string
		if sig, ok := u.pkg.TypesInfo.TypeOf(x.Call.Fun).(*types.Signature); ok {
			for i := 0; i < sig.Params().Len(); i++ {
				goNames = append(goNames, sig.Params().At(i).Name())
			}
		}
		if lit, isLit := ast.Unparen(x.Call.Fun).(*ast.FuncLit); isLit {
			// variables of the enclosing function that the spawned body assigns may change at any time from now on
			for o := range u.assignedIn(lit.Body) {
				if old, ok := st.env[o]; ok && old.K != vFunc {
					st.env[o] = u.freshValue(o.Type(), o.Name(), st)
				}
			}
		}
		u.ghostAt(st, "go#"+fmt.Sprint(u.goOrdOf(x)), x.Pos())
		u.callSiteClauses(ev, "go#"+fmt.Sprint(u.goOrdOf(x)), goNames, goArgs, nil)
		u.assumeNote("go statements: the spawned body is verified as its own unit or not at all; no interleaving semantics")
		k(st)
	case *ast.SendStmt:
		ev := u.ev(st, x.Pos())
		ch := ev.expr(x.Chan)
		sent := ev.expr(x.Value)
		// "send#k": anchor and call-site assertions at the k-th send statement of the unit (what must already hold when the
		// value is handed over; the value itself is arg0 / arg_sent)
		ord := fmt.Sprintf("send#%d", u.sendOrdOf(x))
		u.ghostAt(st, ord, x.Pos())
		u.callSiteClauses(ev, ord, []string{"sent"}, []Value{sent}, nil)
		u.chanSendEffect(st, ch)
		k(st)
	case *ast.SelectStmt:
		u.selectStmt(st, x, c, k)
	default:
		u.subsetErr(s.Pos(), "unsupported statement %T", s)
	}
}

// tryInlineLitCallStmt executes `func(){...}()` or a call of a local closure inline, forking freely.
func (u *Unit) tryInlineLitCallStmt(st *State, call *ast.CallExpr, c *Ctl, k func(*State)) bool {
	ev := u.ev(st, call.Pos())
	var lit *ast.FuncLit
	switch f := ast.Unparen(call.Fun).(type) {
	case *ast.FuncLit:
		lit = f
	case *ast.Ident:
		if obj, ok := u.pkg.TypesInfo.Uses[f].(*types.Var); ok {
			if v, ok := st.env[obj]; ok && v.K == vFunc && v.Fn != nil {
				lit = v.Fn
			}
		}
	}
	if lit == nil {
		// f(func(){...}) where f's contract says it runs its function arguments once and recovers their panics
		// (threading.RunSafe, rescue-style helpers): the literal is executed inline in a frame that swallows a panic.
		if callee, ok := typeutil.Callee(u.pkg.TypesInfo, call).(*types.Func); ok {
			if cc := u.eng.cs.Funcs[calleeKey(callee)]; cc != nil && cc.Flags["runs_funcargs"] && len(call.Args) == 1 {
				if fl, ok := ast.Unparen(call.Args[0]).(*ast.FuncLit); ok {
					u.eng.noteTrusted(u, cc)
					if cc.Flags["recovers"] {
						u.execLitRecovering(st, fl, call.Pos(), k)
					} else {
						u.execLit(st, fl, nil, call.Pos(), func(s2 *State, _ []Value) { k(s2) })
					}
					return true
				}
			}
		}
		return false
	}
	sig, _ := u.pkg.TypesInfo.TypeOf(lit).(*types.Signature)
	args := ev.evalArgs(call, sig)
	u.execLit(st, lit, args, call.Pos(), func(s2 *State, vals []Value) { k(s2) })
	return true
}

// execLitRecovering runs a literal inside a synthetic frame whose only deferred action recovers a panic.
func (u *Unit) execLitRecovering(st *State, lit *ast.FuncLit, pos token.Pos, k func(*State)) {
	outer := &Frame{isLit: true, fn: lit.Type, panicAtEntry: st.panicking}
	outer.defers = append(outer.defers, Deferred{RecoverAll: true})
	outer.retK = func(s2 *State, _ []Value) { k(s2) }
	st.frames = append(st.frames, outer)
	u.execLit(st, lit, nil, pos, func(s2 *State, _ []Value) {
		// normal return of the literal: leave the synthetic frame too
		u.runDefers(s2)
	})
}

// execLit runs a function literal body inline with its own frame.
func (u *Unit) execLit(st *State, lit *ast.FuncLit, args []Value, pos token.Pos, k func(*State, []Value)) {
	info := u.pkg.TypesInfo
	fr := &Frame{isLit: true, fn: lit.Type, panicAtEntry: st.panicking}
	i := 0
	for _, fld := range lit.Type.Params.List {
		for _, n := range fld.Names {
			if obj := info.Defs[n]; obj != nil && i < len(args) {
				st.env[obj] = args[i]
			}
			i++
		}
		if len(fld.Names) == 0 {
			i++
		}
	}
	if lit.Type.Results != nil {
		for _, fld := range lit.Type.Results.List {
			for _, n := range fld.Names {
				if obj := info.Defs[n]; obj != nil {
					st.env[obj] = u.zero(obj.Type())
					fr.results = append(fr.results, obj)
				}
			}
		}
	}
	fr.retK = k
	st.frames = append(st.frames, fr)
	if ord, ok := u.litOrd[lit]; ok {
		u.ghostAt(st, fmt.Sprintf("lit %d entry", ord), lit.Body.Lbrace+1)
	}
	c := &Ctl{brk: map[string]func(*State){}, cont: map[string]func(*State){}}
	c.ret = func(s2 *State, vals []Value) { u.exitFrame(s2, vals) }
	u.block(st, lit.Body.List, c, func(s2 *State) { u.exitFrame(s2, nil) })
}

func (u *Unit) assign(st *State, x *ast.AssignStmt, c *Ctl, k func(*State)) {
	ev := u.ev(st, x.Pos())
	info := u.pkg.TypesInfo
	defineOrAssign := func(lhs ast.Expr, v Value) {
		if id, ok := lhs.(*ast.Ident); ok {
			if id.Name == "_" {
				return
			}
			if x.Tok == token.DEFINE {
				if obj := info.Defs[id]; obj != nil {
					st.env[obj] = ev.coerce(v, obj.Type())
					return
				}
			}
		}
		lv := ev.lvalue(lhs)
		if lv == nil {
			u.subsetErr(lhs.Pos(), "unsupported assignment target %s", exprString(lhs))
			return
		}
		ev.assignLV(lv, v)
	}
	if x.Tok != token.ASSIGN && x.Tok != token.DEFINE {
		// op=
		lv := ev.lvalue(x.Lhs[0])
		if lv == nil {
			u.subsetErr(x.Pos(), "unsupported op-assignment target")
			return
		}
		cur := ev.readLV(lv)
		rhs := ev.expr(x.Rhs[0])
		op := map[token.Token]token.Token{token.ADD_ASSIGN: token.ADD, token.SUB_ASSIGN: token.SUB, token.MUL_ASSIGN: token.MUL,
			token.QUO_ASSIGN: token.QUO, token.REM_ASSIGN: token.REM, token.AND_ASSIGN: token.AND, token.OR_ASSIGN: token.OR,
			token.XOR_ASSIGN: token.XOR, token.SHL_ASSIGN: token.SHL, token.SHR_ASSIGN: token.SHR, token.AND_NOT_ASSIGN: token.AND_NOT}[x.Tok]
		if cur.S == SReal && rhs.S == SInt {
			rhs = scalar(toReal(rhs.T), SReal, cur.Typ)
		}
		nv := ev.binop(op, cur, rhs, x.Rhs[0])
		nv.Typ = cur.Typ
		ev.assignLV(lv, nv)
		k(st)
		return
	}
	if len(x.Lhs) == 1 && len(x.Rhs) == 1 {
		// v := f(args) where f is a local closure (or a literal called in place): executed inline in continuation style, so
		// that a body with several return paths forks the caller's path instead of having to be merged into one value
		if call, ok := ast.Unparen(x.Rhs[0]).(*ast.CallExpr); ok {
			var lit *ast.FuncLit
			switch f := ast.Unparen(call.Fun).(type) {
			case *ast.FuncLit:
				lit = f
			case *ast.Ident:
				if obj, ok := info.Uses[f].(*types.Var); ok {
					if v, ok := st.env[obj]; ok && v.K == vFunc && v.Fn != nil {
						lit = v.Fn
					}
				}
			}
			if lit != nil {
				if sig, _ := info.TypeOf(lit).(*types.Signature); sig != nil && sig.Results().Len() == 1 {
					args := ev.evalArgs(call, sig)
					lhs := x.Lhs[0]
					u.execLit(st, lit, args, call.Pos(), func(s2 *State, vals []Value) {
						if len(vals) != 1 {
							u.subsetErr(call.Pos(), "inline closure call: unexpected number of results")
							return
						}
						ev2 := u.ev(s2, x.Pos())
						if id, ok := lhs.(*ast.Ident); ok {
							if id.Name == "_" {
								k(s2)
								return
							}
							if x.Tok == token.DEFINE {
								if obj := info.Defs[id]; obj != nil {
									s2.env[obj] = ev2.coerce(vals[0], obj.Type())
									k(s2)
									return
								}
							}
						}
						lv := ev2.lvalue(lhs)
						if lv == nil {
							u.subsetErr(lhs.Pos(), "unsupported assignment target %s", exprString(lhs))
							return
						}
						ev2.assignLV(lv, vals[0])
						k(s2)
					})
					return
				}
			}
		}
	}
	if len(x.Lhs) == len(x.Rhs) {
		// inline closure call on the rhs of a single assignment: result := func(){...}()
		vals := make([]Value, len(x.Rhs))
		for i, r := range x.Rhs {
			var lt types.Type
			if !isBlank(x.Lhs[i]) {
				lt = info.TypeOf(x.Lhs[i])
			}
			vals[i] = ev.exprWithType(r, lt)
			if st.dead {
				return
			}
		}
		for i, l := range x.Lhs {
			defineOrAssign(l, vals[i])
		}
		k(st)
		return
	}
	// multi-value forms
	if len(x.Rhs) == 1 {
		rhs := ast.Unparen(x.Rhs[0])
		switch r := rhs.(type) {
		case *ast.IndexExpr:
			// v, ok := m[k]
			base := ev.expr(r.X)
			if mt, ok := base.Typ.Underlying().(*types.Map); ok {
				idx := ev.mapKey(ev.expr(r.Index), mt.Key())
				lv := &LValue{K: lvMapElem, Ref: base.T, Idx: idx.T, IdxS: idx.S, Typ: mt.Elem(), MapTyp: mt, ElemKey: typeKey(mt)}
				v := ev.readLV(lv)
				dom, _, _, ds, _ := ev.mapFams(mt, "", SRef)
				ok := boolV(app("select", app("select", u.fam(st, dom, ds), base.T), idx.T))
				defineOrAssign(x.Lhs[0], v)
				defineOrAssign(x.Lhs[1], ok)
				k(st)
				return
			}
		case *ast.TypeAssertExpr:
			v := ev.expr(r.X)
			t := info.TypeOf(r.Type)
			okc := u.fresh("typeok", SBool)
			res := ev.unbox(v, t)
			// on failure the result is the zero value
			if res.K == vScalar {
				res = scalar(app("ite", okc, res.T, u.zeroOf(res.S)), res.S, t)
			}
			if v.K == vScalar && v.S == SRef {
				st.assume(implies(app("=", v.T, "nil"), not(okc)))
				if _, isIface := t.Underlying().(*types.Interface); !isIface {
					// assertion to a concrete type succeeds iff that is the dynamic type
					st.assume(app("=", okc, and(not(app("=", v.T, "nil")), app("=", app(u.dynTypeFn(), v.T), u.dynTypeID(t)))))
				}
			}
			defineOrAssign(x.Lhs[0], res)
			defineOrAssign(x.Lhs[1], boolV(okc))
			k(st)
			return
		case *ast.UnaryExpr:
			if r.Op == token.ARROW {
				ch := ev.expr(r.X)
				u.chanRecvEffect(st, ch)
				t := info.TypeOf(r)
				if tup, ok := t.(*types.Tuple); ok {
					t = tup.At(0).Type()
				}
				defineOrAssign(x.Lhs[0], u.freshValue(t, "recv", st))
				defineOrAssign(x.Lhs[1], boolV(u.fresh("recvok", SBool)))
				k(st)
				return
			}
		}
		v := ev.expr(x.Rhs[0])
		if st.dead {
			return
		}
		if v.K == vTuple && len(v.Tuple) == len(x.Lhs) {
			for i, l := range x.Lhs {
				defineOrAssign(l, v.Tuple[i])
			}
			k(st)
			return
		}
	}
	u.subsetErr(x.Pos(), "unsupported assignment form")
}

func isBlank(e ast.Expr) bool {
	id, ok := e.(*ast.Ident)
	return ok && id.Name == "_"
}

func (u *Unit) ifStmt(st *State, x *ast.IfStmt, c *Ctl, k func(*State)) {
	run := func(s1 *State) {
		ev := u.ev(s1, x.Pos())
		cond := ev.expr(x.Cond)
		if s1.dead {
			return
		}
		u.branch(s1, cond.T, func(s2 *State) {
			u.block(s2, x.Body.List, c, k)
		}, func(s2 *State) {
			if x.Else == nil {
				k(s2)
				return
			}
			u.stmt(s2, x.Else, c, k)
		})
	}
	if x.Init != nil {
		u.stmt(st, x.Init, c, run)
		return
	}
	run(st)
}

func (u *Unit) switchStmt(st *State, x *ast.SwitchStmt, c *Ctl, k func(*State)) {
	lbl := c.label
	c = c.with()
	c.label = ""
	c.brk[""] = k
	if lbl != "" {
		c.brk[lbl] = k
	}
	run := func(s1 *State) {
		ev := u.ev(s1, x.Pos())
		var tag *Value
		if x.Tag != nil {
			v := ev.expr(x.Tag)
			tag = &v
		}
		var clauses []*ast.CaseClause
		var def *ast.CaseClause
		for _, cc := range x.Body.List {
			cl := cc.(*ast.CaseClause)
			if cl.List == nil {
				def = cl
				continue
			}
			clauses = append(clauses, cl)
		}
		var rec func(s *State, i int)
		runBody := func(s *State, idx int, cl *ast.CaseClause) {
			// fallthrough support: if the body ends with fallthrough continue into next clause body
			body := cl.Body
			if n := len(body); n > 0 {
				if br, ok := body[n-1].(*ast.BranchStmt); ok && br.Tok == token.FALLTHROUGH {
					u.subsetErr(br.Pos(), "fallthrough is not supported")
					return
				}
			}
			u.block(s, body, c, k)
		}
		rec = func(s *State, i int) {
			if i >= len(clauses) {
				if def != nil {
					runBody(s, -1, def)
				} else {
					k(s)
				}
				return
			}
			cl := clauses[i]
			e2 := u.ev(s, cl.Pos())
			var conds []string
			for _, e := range cl.List {
				v := e2.expr(e)
				if tag != nil {
					conds = append(conds, e2.binop(token.EQL, *tag, v, e).T)
				} else {
					conds = append(conds, v.T)
				}
			}
			u.branch(s, or(conds...), func(s2 *State) { runBody(s2, i, cl) }, func(s2 *State) { rec(s2, i+1) })
		}
		rec(s1, 0)
	}
	if x.Init != nil {
		u.stmt(st, x.Init, c, run)
		return
	}
	run(st)
}

func (u *Unit) typeSwitchStmt(st *State, x *ast.TypeSwitchStmt, c *Ctl, k func(*State)) {
	c = c.with()
	c.brk[""] = k
	info := u.pkg.TypesInfo
	run := func(s1 *State) {
		ev := u.ev(s1, x.Pos())
		var subject ast.Expr
		var bindName *ast.Ident
		switch a := x.Assign.(type) {
		case *ast.ExprStmt:
			subject = a.X.(*ast.TypeAssertExpr).X
		case *ast.AssignStmt:
			subject = a.Rhs[0].(*ast.TypeAssertExpr).X
			bindName = a.Lhs[0].(*ast.Ident)
		}
		v := ev.expr(subject)
		u.assumeNote("type switches: each case is explored as a nondeterministic choice (dynamic types are not modelled)")
		_ = bindName
		for _, cc := range x.Body.List {
			cl := cc.(*ast.CaseClause)
			if !u.pathBudget() {
				return
			}
			s2 := s1.clone()
			if obj := info.Implicits[cl]; obj != nil {
				ev2 := u.ev(s2, cl.Pos())
				if len(cl.List) == 1 {
					s2.env[obj] = ev2.unbox(v, obj.Type())
				} else {
					s2.env[obj] = v
				}
			}
			// nil case
			for _, e := range cl.List {
				if id, ok := e.(*ast.Ident); ok && id.Name == "nil" && v.K == vScalar {
					s2.assume(app("=", v.T, "nil"))
				}
			}
			// a case listing only concrete types is entered only by a non-nil value whose dynamic type is one of them
			// (the converse - which earlier cases were NOT taken - is left open: cases stay a nondeterministic choice)
			if v.K == vScalar && v.S == SRef && len(cl.List) > 0 {
				var alts []string
				for _, e := range cl.List {
					tv, ok := info.Types[e]
					if !ok || !tv.IsType() || types.IsInterface(tv.Type) {
						alts = nil
						break
					}
					alts = append(alts, app("=", app(u.dynTypeFn(), v.T), u.dynTypeID(tv.Type)))
				}
				if len(alts) > 0 {
					s2.assume(and(not(app("=", v.T, "nil")), or(alts...)))
				}
			}
			// the default case is entered only when no case matched: the value has none of the concrete types listed
			if v.K == vScalar && v.S == SRef && cl.List == nil {
				for _, oc := range x.Body.List {
					for _, e := range oc.(*ast.CaseClause).List {
						if tv, ok := info.Types[e]; ok && tv.IsType() && !types.IsInterface(tv.Type) {
							s2.assume(or(app("=", v.T, "nil"), not(app("=", app(u.dynTypeFn(), v.T), u.dynTypeID(tv.Type)))))
						}
					}
				}
			}
			u.block(s2, cl.Body, c, k)
		}
		hasDefault := false
		for _, cc := range x.Body.List {
			if cc.(*ast.CaseClause).List == nil {
				hasDefault = true
			}
		}
		if !hasDefault {
			k(s1)
		}
	}
	if x.Init != nil {
		u.stmt(st, x.Init, c, run)
		return
	}
	run(st)
}

// ---- loops ----

func (u *Unit) loopSpec(s ast.Stmt, label string) (*LoopSpec, string) {
	id := u.loopOrd[s]
	if u.c != nil {
		if label != "" {
			if ls, ok := u.c.Loops[label]; ok {
				return ls, label
			}
		}
		if ls, ok := u.c.Loops[id]; ok {
			return ls, id
		}
	}
	return nil, id
}

// assignedIn collects local variables assigned in a statement (syntactically).
func (u *Unit) assignedIn(n ast.Node) map[types.Object]bool {
	out := map[types.Object]bool{}
	info := u.pkg.TypesInfo
	mark := func(e ast.Expr) {
		for {
			switch x := e.(type) {
			case *ast.ParenExpr:
				e = x.X
				continue
			case *ast.SelectorExpr:
				// field of a local struct value
				if _, ok := info.TypeOf(x.X).Underlying().(*types.Pointer); ok {
					return
				}
				e = x.X
				continue
			case *ast.IndexExpr:
				return
			case *ast.Ident:
				if obj := info.ObjectOf(x); obj != nil {
					out[obj] = true
				}
			}
			return
		}
	}
	ast.Inspect(n, func(nn ast.Node) bool {
		switch x := nn.(type) {
		case *ast.AssignStmt:
			for _, l := range x.Lhs {
				mark(l)
			}
		case *ast.IncDecStmt:
			mark(x.X)
		case *ast.RangeStmt:
			if x.Key != nil {
				mark(x.Key)
			}
			if x.Value != nil {
				mark(x.Value)
			}
		case *ast.UnaryExpr:
			if x.Op == token.AND {
				mark(x.X)
			}
		case *ast.FuncLit:
			return true
		}
		return true
	})
	return out
}

// havocLoop forgets what the loop body may change.
func (u *Unit) havocLoop(st *State, body ast.Node, extra []ast.Node, ls *LoopSpec, pos token.Pos) {
	assigned := u.assignedIn(body)
	for _, e := range extra {
		if e != nil {
			for o := range u.assignedIn(e) {
				assigned[o] = true
			}
		}
	}
	var objs []types.Object
	for o := range assigned {
		if _, ok := st.env[o]; ok {
			objs = append(objs, o)
		}
	}
	// deterministic order
	for i := 0; i < len(objs); i++ {
		for j := i + 1; j < len(objs); j++ {
			if objs[j].Pos() < objs[i].Pos() {
				objs[i], objs[j] = objs[j], objs[i]
			}
		}
	}
	for _, o := range objs {
		old := st.env[o]
		if old.K == vFunc {
			continue
		}
		if u.isCut(old) && appendsTo(body, o, u.pkg.TypesInfo) && u.c != nil && u.c.Flags["append_in_place_ok"] {
			u.assumeNote("append to a re-sliced view in " + u.name + " is modelled as copying: the unit declares (append_in_place_ok) that the overwritten backing array is not observed afterwards")
		}
		if u.isCut(old) && appendsTo(body, o, u.pkg.TypesInfo) && !(u.c != nil && u.c.Flags["append_in_place_ok"]) {
			// a re-sliced view enters a loop that appends to it: the first append writes into the shared backing array
			u.emit(st, "alias/append@loop:"+o.Name(), "false", "append to a re-sliced view writes into the shared backing array (not modelled): build the result in a slice of its own, or declare flag append_in_place_ok")
		}
		st.env[o] = u.freshValue(o.Type(), o.Name(), st)
	}
	if ls != nil && ls.HasMod {
		sev := u.specEv(st, pos, u.name+" loop modifies")
		u.havocModifies(sev, ls.Modifies, u.c)
		return
	}
	// no loop modifies clause: everything on the heap and all ghost state may change
	writes := false
	ast.Inspect(body, func(n ast.Node) bool {
		switch x := n.(type) {
		case *ast.CallExpr:
			if !u.isHarmlessCall(x) {
				writes = true
			}
		case *ast.AssignStmt:
			for _, l := range x.Lhs {
				if u.isHeapTarget(l) {
					writes = true
				}
			}
		case *ast.IncDecStmt:
			if u.isHeapTarget(x.X) {
				writes = true
			}
		case *ast.SendStmt, *ast.UnaryExpr:
			if ue, ok := n.(*ast.UnaryExpr); ok && ue.Op != token.ARROW {
				return true
			}
			writes = true
		}
		return true
	})
	defer u.assumeTypeInvs(st)
	// ghost locals assigned at anchors inside the body may change there: forget them at the loop head
	if u.c != nil {
		inBody := u.anchorsIn(body, extra)
		for anchor, gas := range u.c.GhostAt {
			if !inBody(anchor) {
				continue
			}
			for _, ga := range gas {
				if id, ok := ga.LHS.(*ast.Ident); ok {
					if old, ok := st.lets[id.Name]; ok && old.K == vScalar && old.S != "" {
						nv := old
						nv.T = u.fresh("ghost_"+id.Name, old.S)
						st.lets[id.Name] = nv
					}
				}
			}
		}
	}
	if u.c != nil && len(u.c.GhostAt) > 0 && !writes {
		// ghost variables assigned at anchors may change in the body
		for _, gas := range u.c.GhostAt {
			for _, ga := range gas {
				e := ga.LHS
				for e != nil {
					if ix, ok := e.(*ast.IndexExpr); ok {
						e = ix.X
						continue
					}
					break
				}
				if id, ok := e.(*ast.Ident); ok {
					if g, ok := u.eng.cs.Ghosts[id.Name]; ok {
						sev := u.specEv(st, pos, "havoc ghost")
						gv := sev.ghostVar(g)
						u.havocFam(st, "G:"+g.Name, gv.S)
					}
				}
			}
		}
	}
	if writes {
		u.havocHeap(st, "loop body")
		u.havocGhosts(st)
		// channel counters
		for _, k := range []string{"CH:len", "CH:closed"} {
			if _, ok := st.heap[k]; ok {
				u.eng.mu.Lock()
				s := u.eng.famSorts[k]
				u.eng.mu.Unlock()
				u.havocFam(st, k, s)
			}
		}
	}
}

func (u *Unit) checkInvariants(st *State, ls *LoopSpec, id, phase string, pos token.Pos, extraBinds map[string]Value) {
	if ls == nil {
		return
	}
	for i, inv := range ls.Invariants {
		sev := u.specEv(st, pos, u.name+" loop "+id)
		for k, v := range extraBinds {
			sev.binds[k] = v
		}
		g := sev.expr(inv.Expr)
		u.emit(st, fmt.Sprintf("%s@loop%s#%d", phase, id, i), g.T, inv.Text)
	}
}

func (u *Unit) assumeInvariants(st *State, ls *LoopSpec, id string, pos token.Pos, extraBinds map[string]Value) {
	if ls == nil {
		return
	}
	for _, inv := range ls.Invariants {
		sev := u.specEv(st, pos, u.name+" loop "+id)
		for k, v := range extraBinds {
			sev.binds[k] = v
		}
		g := sev.expr(inv.Expr)
		st.assume(g.T)
	}
}

func (u *Unit) forStmt(st *State, x *ast.ForStmt, c *Ctl, k func(*State)) {
	lbl := c.label
	ls, id := u.loopSpec(x, lbl)
	bodyPos := x.Body.Lbrace + 1
	start := func(s0 *State) {
		if ls == nil {
			u.subsetErr(x.Pos(), "loop %s has no invariant", id)
			// continue after the loop with everything the body touches forgotten (sound, but proves little)
			u.havocLoop(s0, x.Body, []ast.Node{x.Post}, nil, bodyPos)
			if x.Cond != nil {
				ev := u.ev(s0, x.Pos())
				cv := ev.expr(x.Cond)
				s0.assume(not(cv.T))
			}
			k(s0)
			return
		}
		u.reached["loop "+id] = true
		if ls.ListIter != nil {
			u.listIterLoop(s0, x, ls, id, c, k)
			return
		}
		u.checkInvariants(s0, ls, id, "inv_entry", bodyPos, nil)
		u.havocLoop(s0, x.Body, []ast.Node{x.Post}, ls, bodyPos)
		u.assumeInvariants(s0, ls, id, bodyPos, nil)
		ev := u.ev(s0, x.Pos())
		cond := "true"
		if x.Cond != nil {
			cond = ev.expr(x.Cond).T
		}
		var decr0 string
		u.branch(s0, cond, func(sb *State) {
			if ls.Decreases != nil {
				sev := u.specEv(sb, bodyPos, u.name+" decreases")
				decr0 = sev.expr(ls.Decreases.Expr).T
				u.emit(sb, "decreases_bounded@loop"+id, app(">=", decr0, "0"), "variant bounded below")
			}
			d0 := decr0
			c2 := c.with()
			c2.label = ""
			endIter := func(se *State) {
				post := func(sp *State) {
					u.checkInvariants(sp, ls, id, "inv_pres", bodyPos, nil)
					if ls.Decreases != nil {
						sev := u.specEv(sp, bodyPos, u.name+" decreases")
						d1 := sev.expr(ls.Decreases.Expr).T
						u.emit(sp, "decreases@loop"+id, app("<", d1, d0), "variant decreases")
					}
				}
				u.ghostAt(se, "end loop "+id, x.Body.Rbrace)
				if x.Post != nil {
					u.stmt(se, x.Post, c2, post)
				} else {
					post(se)
				}
			}
			c2.cont[""] = endIter
			c2.brk[""] = k
			if lbl != "" {
				c2.cont[lbl] = endIter
				c2.brk[lbl] = k
			}
			u.ghostAt(sb, "begin loop "+id, bodyPos)
			u.block(sb, x.Body.List, c2, endIter)
		}, func(se *State) {
			k(se)
		})
	}
	if x.Init != nil {
		u.stmt(st, x.Init, c, start)
		return
	}
	start(st)
}

// rangeStmt: range over int, slice, map, channel (as nondeterministic stream).
func (u *Unit) rangeStmt(st *State, x *ast.RangeStmt, c *Ctl, k func(*State)) {
	lbl := c.label
	ls, id := u.loopSpec(x, lbl)
	info := u.pkg.TypesInfo
	bodyPos := x.Body.Lbrace + 1
	ev := u.ev(st, x.Pos())
	coll := ev.expr(x.X)
	if st.dead {
		return
	}
	if ls == nil {
		u.subsetErr(x.Pos(), "loop %s has no invariant", id)
		u.havocLoop(st, x.Body, nil, nil, bodyPos)
		k(st)
		return
	}
	u.reached["loop "+id] = true
	bindVar := func(s *State, e ast.Expr, v Value) {
		if e == nil {
			return
		}
		idn, ok := e.(*ast.Ident)
		if !ok {
			e2 := u.ev(s, x.Pos())
			if lv := e2.lvalue(e); lv != nil {
				e2.assignLV(lv, v)
			}
			return
		}
		if idn.Name == "_" {
			return
		}
		obj := info.ObjectOf(idn)
		if obj != nil {
			s.env[obj] = v
		}
	}
	ct := info.TypeOf(x.X)
	switch t := ct.Underlying().(type) {
	case *types.Basic, *types.Slice, *types.Array:
		// index loop: ghost index "idx" in invariants; i in [0,n)
		var n string
		isInt := false
		if b, ok := t.(*types.Basic); ok {
			if b.Info()&types.IsInteger != 0 {
				n = coll.T
				isInt = true
			} else {
				u.subsetErr(x.Pos(), "range over string is not supported")
				return
			}
		} else {
			n = coll.Comp["#len"].T
		}
		// entry: idx = 0; for slices with a set view, `visited` is the set of the elements seen so far
		var visSort Sort
		var collSet string
		if sv, ok := coll.Comp["#set"]; ok && sv.T != "" && !isInt {
			visSort = sv.S
			collSet = sv.T
		}
		eb := map[string]Value{"idx": intV("0")}
		if visSort != "" {
			eb["visited"] = Value{K: vScalar, T: u.emptySet(visSort), S: visSort}
		}
		u.checkInvariants(st, ls, id, "inv_entry", bodyPos, eb)
		u.havocLoop(st, x.Body, nil, ls, bodyPos)
		i := u.fresh("idx", SInt)
		st.assume(and(app("<=", "0", i), app("<=", i, n)))
		ib := map[string]Value{"idx": intV(i)}
		vis := ""
		var curElem string
		if visSort != "" {
			vis = u.fresh("visited", visSort)
			ib["visited"] = Value{K: vScalar, T: vis, S: visSort}
			ks, _, _ := visSort.isArray()
			st.assume(fmt.Sprintf("(forall ((x %s)) (! (=> (select %s x) (select %s x)) :pattern ((select %s x))))", ks, vis, collSet, vis))
		}
		u.assumeInvariants(st, ls, id, bodyPos, ib)
		u.branch(st, app("<", i, n), func(sb *State) {
			if isInt {
				bindVar(sb, x.Key, scalar(i, SInt, info.TypeOf(x.X)))
			} else {
				bindVar(sb, x.Key, intV(i))
				if x.Value != nil {
					var elemT types.Type
					switch tt := t.(type) {
					case *types.Slice:
						elemT = tt.Elem()
					case *types.Array:
						elemT = tt.Elem()
					}
					e2 := u.ev(sb, x.Pos())
					v := e2.readLV(&LValue{K: lvElem, Ref: coll.Comp["#arr"].T, Idx: i, Typ: elemT, ElemKey: typeKey(elemT)})
					u.assumeAllocated(sb, v)
					if sv, ok := coll.Comp["#set"]; ok && sv.T != "" && v.K == vScalar {
						sb.assume(app("select", sv.T, v.T))
						curElem = v.T
					}
					bindVar(sb, x.Value, v)
				}
			}
			c2 := c.with()
			c2.label = ""
			endIter := func(se *State) {
				nb := map[string]Value{"idx": intV(app("+", i, "1"))}
				if vis != "" && curElem != "" {
					nb["visited"] = Value{K: vScalar, T: app("store", vis, curElem, "true"), S: visSort}
				} else if vis != "" {
					nb["visited"] = Value{K: vScalar, T: vis, S: visSort}
				}
				u.checkInvariants(se, ls, id, "inv_pres", bodyPos, nb)
			}
			c2.cont[""] = endIter
			c2.brk[""] = k
			if lbl != "" {
				c2.cont[lbl] = endIter
				c2.brk[lbl] = k
			}
			if vis != "" && curElem == "" {
				// the element variable is not used by the loop: read it for the visited set
				var elemT types.Type
				switch tt := t.(type) {
				case *types.Slice:
					elemT = tt.Elem()
				case *types.Array:
					elemT = tt.Elem()
				}
				if elemT != nil {
					e3 := u.ev(sb, x.Pos())
					if v := e3.readLV(&LValue{K: lvElem, Ref: coll.Comp["#arr"].T, Idx: i, Typ: elemT, ElemKey: typeKey(elemT)}); v.K == vScalar {
						curElem = v.T
					}
				}
			}
			u.block(sb, x.Body.List, c2, endIter)
		}, func(se *State) {
			if vis != "" {
				// all elements visited: the visited set is the set view (the set view is by definition the set of the elements)
				se.assume(app("=", vis, collSet))
			}
			k(se)
		})
	case *types.Map:
		// arbitrary enumeration with ghost set seen ⊆ dom0; invariants may use seen(k) and nseen
		ks := u.sortOf(t.Key())
		if ks == "" {
			ks = SRef
		}
		dom, _, card, ds, _ := ev.mapFams(t, "", SRef)
		dom0 := app("select", u.fam(st, dom, ds), coll.T)
		card0 := app("select", u.fam(st, card, arraySort(SRef, SInt)), coll.T)
		d0 := u.fresh("dom0", arraySort(ks, SBool))
		st.assume(app("=", d0, dom0))
		c0 := u.fresh("card0", SInt)
		st.assume(app("=", c0, card0))
		st.assume(app(">=", c0, "0"))
		seenSort := arraySort(ks, SBool)
		empty := fmt.Sprintf("((as const %s) false)", seenSort)
		mkBinds := func(seen, nseen string) map[string]Value {
			return map[string]Value{"seen": {K: vScalar, T: seen, S: seenSort}, "nseen": intV(nseen), "dom0": {K: vScalar, T: d0, S: seenSort}, "card0": intV(c0)}
		}
		u.checkInvariants(st, ls, id, "inv_entry", bodyPos, mkBinds(empty, "0"))
		u.havocLoop(st, x.Body, nil, ls, bodyPos)
		seen := u.fresh("seen", seenSort)
		nseen := u.fresh("nseen", SInt)
		st.assume(and(app("<=", "0", nseen), app("<=", nseen, c0)))
		st.assume(fmt.Sprintf("(forall ((k %s)) (! (=> (select %s k) (select %s k)) :pattern ((select %s k))))", ks, seen, d0, seen))
		u.assumeInvariants(st, ls, id, bodyPos, mkBinds(seen, nseen))
		u.assumeNote("range over a map: arbitrary enumeration order; each key present at loop entry (and not deleted before being reached) is visited exactly once; exit when all such keys were seen")
		if !u.pathBudget() {
			return
		}
		sb := st.clone()
		// iteration: pick k in dom0 \ seen that is still in the map
		kk := u.fresh("key", ks)
		sb.assume(app("select", d0, kk))
		sb.assume(not(app("select", seen, kk)))
		sb.assume(app("<", nseen, c0))
		e2 := u.ev(sb, x.Pos())
		curDom := app("select", u.fam(sb, dom, ds), coll.T)
		sb.assume(app("select", curDom, kk))
		bindVar(sb, x.Key, scalar(kk, ks, t.Key()))
		if x.Value != nil {
			v := e2.readLV(&LValue{K: lvMapElem, Ref: coll.T, Idx: kk, IdxS: ks, Typ: t.Elem(), MapTyp: t, ElemKey: typeKey(t)})
			u.assumeAllocated(sb, v)
			bindVar(sb, x.Value, v)
		}
		c2 := c.with()
		c2.label = ""
		endIter := func(se *State) {
			u.checkInvariants(se, ls, id, "inv_pres", bodyPos, mkBinds(app("store", seen, kk, "true"), app("+", nseen, "1")))
		}
		c2.cont[""] = endIter
		c2.brk[""] = k
		if lbl != "" {
			c2.cont[lbl] = endIter
			c2.brk[lbl] = k
		}
		u.block(sb, x.Body.List, c2, endIter)
		// exit: every key of dom0 that is still present has been seen
		curDomE := app("select", u.fam(st, dom, ds), coll.T)
		st.assume(fmt.Sprintf("(forall ((k %s)) (! (=> (and (select %s k) (select %s k)) (select %s k)) :pattern ((select %s k))))", ks, d0, curDomE, seen, seen))
		// the iterated map's key set is what it was at loop entry: seen = dom0, and nseen = |seen| = |dom0|
		st.assume(implies(app("=", curDomE, d0), app("=", nseen, c0)))
		k(st)
	case *types.Chan:
		// stream of unknown length
		u.checkInvariants(st, ls, id, "inv_entry", bodyPos, nil)
		u.havocLoop(st, x.Body, nil, ls, bodyPos)
		u.assumeInvariants(st, ls, id, bodyPos, nil)
		if !u.pathBudget() {
			return
		}
		sb := st.clone()
		bindVar(sb, x.Key, u.freshValue(t.Elem(), "item", sb))
		c2 := c.with()
		c2.label = ""
		endIter := func(se *State) { u.checkInvariants(se, ls, id, "inv_pres", bodyPos, nil) }
		c2.cont[""] = endIter
		c2.brk[""] = k
		if lbl != "" {
			c2.cont[lbl] = endIter
			c2.brk[lbl] = k
		}
		u.ghostAt(sb, "begin loop "+id, bodyPos)
		u.block(sb, x.Body.List, c2, endIter)
		k(st)
	default:
		u.subsetErr(x.Pos(), "unsupported range over %s", ct)
	}
}

// ---- select ----

func (u *Unit) selectStmt(st *State, x *ast.SelectStmt, c *Ctl, k func(*State)) {
	c = c.with()
	c.brk[""] = k
	info := u.pkg.TypesInfo
	hasDefault := false
	for _, cc := range x.Body.List {
		if cc.(*ast.CommClause).Comm == nil {
			hasDefault = true
		}
	}
	var readies []string
	type armT struct {
		cl    *ast.CommClause
		ready string
	}
	var arms []armT
	as := arraySort(SRef, SInt)
	u.famSort("CH:len", as)
	u.famSort("CH:cap", as)
	ev := u.ev(st, x.Pos())
	for _, cc := range x.Body.List {
		cl := cc.(*ast.CommClause)
		if cl.Comm == nil {
			continue
		}
		ready := "true"
		switch s := cl.Comm.(type) {
		case *ast.SendStmt:
			ch := ev.expr(s.Chan)
			l := app("select", u.fam(st, "CH:len", as), ch.T)
			cp := app("select", u.fam(st, "CH:cap", as), ch.T)
			// buffered: ready iff room; unbuffered: depends on a partner (unknown)
			ready = app("ite", app(">", cp, "0"), app("<", l, cp), u.fresh("partner", SBool))
		default:
			var ue *ast.UnaryExpr
			switch s2 := s.(type) {
			case *ast.ExprStmt:
				ue, _ = ast.Unparen(s2.X).(*ast.UnaryExpr)
			case *ast.AssignStmt:
				ue, _ = ast.Unparen(s2.Rhs[0]).(*ast.UnaryExpr)
			}
			if ue != nil {
				ch := ev.expr(ue.X)
				l := app("select", u.fam(st, "CH:len", as), ch.T)
				cp := app("select", u.fam(st, "CH:cap", as), ch.T)
				// buffered: ready iff data is queued (closing is not modelled); unbuffered: depends on a partner (unknown)
				ready = app("ite", app(">", cp, "0"), app(">", l, "0"), u.fresh("partner", SBool))
			}
		}
		readies = append(readies, ready)
		arms = append(arms, armT{cl, ready})
	}
	for _, a := range arms {
		if !u.pathBudget() {
			return
		}
		s2 := st.clone()
		s2.assume(a.ready)
		cl := a.cl
		armName := "?"
		switch cs := cl.Comm.(type) {
		case *ast.SendStmt:
			armName = exprString(cs.Chan)
		case *ast.ExprStmt:
			if ue, ok := ast.Unparen(cs.X).(*ast.UnaryExpr); ok {
				armName = exprString(ue.X)
			}
		case *ast.AssignStmt:
			if ue, ok := ast.Unparen(cs.Rhs[0]).(*ast.UnaryExpr); ok {
				armName = exprString(ue.X)
			}
		}
		run := func(s3 *State) {
			u.ghostAt(s3, "arm "+armName, cl.Colon+1)
			// "call arm <chan>: assume P": channel-content invariant - what every verified sender asserts of the values it
			// sends (send#k clauses) may be assumed of a value received from that channel (listed as an assumption)
			if u.c != nil {
				for _, ca := range u.c.CallAssumes["arm "+armName] {
					sev := u.specEv(s3, cl.Colon+1, u.name+" arm "+armName)
					s3.assume(sev.expr(ca.Expr).T)
					u.assumeNote("assumed of every value received from " + armName + " in " + u.name + " (channel-content invariant, asserted at the sends): " + ca.Text)
				}
			}
			u.block(s3, cl.Body, c, k)
		}
		switch s := cl.Comm.(type) {
		case *ast.SendStmt:
			e2 := u.ev(s2, s.Pos())
			ch := e2.expr(s.Chan)
			sent := e2.expr(s.Value)
			ord := fmt.Sprintf("send#%d", u.sendOrdOf(s))
			u.ghostAt(s2, ord, s.Pos())
			u.callSiteClauses(e2, ord, []string{"sent"}, []Value{sent}, nil)
			u.chanSendEffect(s2, ch)
			run(s2)
		case *ast.ExprStmt:
			if ue, ok := ast.Unparen(s.X).(*ast.UnaryExpr); ok {
				e2 := u.ev(s2, s.Pos())
				u.chanRecvEffect(s2, e2.expr(ue.X))
			}
			run(s2)
		case *ast.AssignStmt:
			e2 := u.ev(s2, s.Pos())
			ue := ast.Unparen(s.Rhs[0]).(*ast.UnaryExpr)
			ch := e2.expr(ue.X)
			u.chanRecvEffect(s2, ch)
			cht, _ := info.TypeOf(ue.X).Underlying().(*types.Chan)
			var v Value
			if cht != nil {
				v = u.freshValue(cht.Elem(), "recv", s2)
				u.assumeAllocated(s2, v)
			}
			for i, l := range s.Lhs {
				val := v
				if i == 1 {
					val = boolV(u.fresh("recvok", SBool))
				}
				if id, ok := l.(*ast.Ident); ok && s.Tok == token.DEFINE {
					if obj := info.Defs[id]; obj != nil {
						s2.env[obj] = val
					}
				} else if lv := e2.lvalue(l); lv != nil {
					e2.assignLV(lv, val)
				}
			}
			run(s2)
		}
	}
	if hasDefault {
		for _, cc := range x.Body.List {
			cl := cc.(*ast.CommClause)
			if cl.Comm == nil {
				s2 := st
				for _, r := range readies {
					s2.assume(not(r))
				}
				u.block(s2, cl.Body, c, k)
			}
		}
	}
	u.assumeNote("select: each ready case is a nondeterministic choice; channels are bounded counters without contents")
}

// ---- defer / return / exits ----

func (u *Unit) deferStmt(st *State, x *ast.DeferStmt) {
	ev := u.ev(st, x.Pos())
	d := Deferred{Call: x.Call}
	if lit, ok := ast.Unparen(x.Call.Fun).(*ast.FuncLit); ok {
		d.Lit = lit
		sig, _ := u.pkg.TypesInfo.TypeOf(lit).(*types.Signature)
		d.Args = ev.evalArgs(x.Call, sig)
	} else {
		// evaluate receiver and arguments now
		if sel, ok := ast.Unparen(x.Call.Fun).(*ast.SelectorExpr); ok {
			if s, ok := u.pkg.TypesInfo.Selections[sel]; ok && s.Kind() == types.MethodVal {
				r := ev.expr(sel.X)
				idx := s.Index()
				for _, i := range idx[:len(idx)-1] {
					r = ev.stepField(r, i, sel.Pos())
				}
				d.Recv = &r
			}
		}
		for _, a := range x.Call.Args {
			d.Args = append(d.Args, ev.expr(a))
		}
	}
	fr := st.top()
	fr.defers = append(fr.defers, d)
}

func (u *Unit) returnStmt(st *State, x *ast.ReturnStmt, c *Ctl) {
	if k, ok := u.retOrd[x]; ok {
		u.ghostAt(st, fmt.Sprintf("return#%d", k), x.Pos())
		u.callSiteClauses(u.ev(st, x.Pos()), fmt.Sprintf("return#%d", k), nil, nil, nil)
	}
	ev := u.ev(st, x.Pos())
	var vals []Value
	fr := st.top()
	var rtypes []types.Type
	if fr.isLit {
		if sig, ok := u.pkg.TypesInfo.TypeOf(fr.fn).(*types.Signature); ok {
			rtypes = resultTypes(sig)
		}
	} else if u.sig != nil {
		rtypes = resultTypes(u.sig)
	}
	if len(x.Results) == 1 && len(rtypes) > 1 {
		v := ev.expr(x.Results[0])
		if st.dead {
			return
		}
		vals = v.Tuple
	} else {
		for i, r := range x.Results {
			var rt types.Type
			if i < len(rtypes) {
				rt = rtypes[i]
			}
			v := ev.exprWithType(r, rt)
			if st.dead {
				return
			}
			vals = append(vals, ev.coerce(v, rt))
		}
	}
	if len(x.Results) == 0 {
		vals = nil
	}
	if k, ok := u.retOrd[x]; ok {
		// "returned#k": after the results are evaluated (bound to ret / retN), before deferred calls run
		extra := map[string]Value{}
		for i, v := range vals {
			extra[fmt.Sprintf("ret%d", i)] = v
		}
		if len(vals) > 0 {
			extra["ret"] = vals[0]
		}
		u.ghostAtWith(st, fmt.Sprintf("returned#%d", k), x.Pos(), extra)
		// "call returned#k: assert ..." sees the evaluated results as arg0, arg1, ...
		u.callSiteClauses(u.ev(st, x.Pos()), fmt.Sprintf("returned#%d", k), nil, vals, nil)
	}
	c.ret(st, vals)
}

// exitFrame ends the current activation normally (return): set results, run defers, then continue.
func (u *Unit) exitFrame(st *State, vals []Value) {
	fr := st.top()
	if vals != nil {
		if len(fr.results) == len(vals) && len(fr.results) > 0 {
			for i, o := range fr.results {
				st.env[o] = vals[i]
			}
		} else {
			fr.resVals = vals
		}
	}
	u.runDefers(st)
}

// doPanic starts unwinding with the given panic value.
func (u *Unit) doPanic(st *State, val string) {
	if !u.pathBudget() {
		return
	}
	st.panicking = true
	st.panicVal = val
	st.recovered = false
	u.runDefers(st)
}

// runDefers pops and runs deferred calls of the top frame; when empty, finishes the frame.
func (u *Unit) runDefers(st *State) {
	if st.dead {
		return
	}
	fr := st.top()
	if len(fr.defers) == 0 {
		u.finishFrame(st)
		return
	}
	d := fr.defers[len(fr.defers)-1]
	fr.defers = fr.defers[:len(fr.defers)-1]
	if d.RecoverAll {
		if st.panicking {
			st.panicking = false
			st.recovered = true
		}
		u.runDefers(st)
		return
	}
	if d.Lit != nil {
		st.inDeferLit++
		u.execLit(st, d.Lit, d.Args, d.Lit.Pos(), func(s2 *State, _ []Value) {
			s2.inDeferLit--
			u.runDefers(s2)
		})
		return
	}
	// deferred call: evaluate as a call with pre-evaluated receiver/args
	wasPanicking := st.panicking
	ev := u.ev(st, d.Call.Pos())
	_ = wasPanicking
	u.deferredCall(ev, d, func(s2 *State) {
		if s2.dead {
			return
		}
		u.runDefers(s2)
	})
}

func (u *Unit) deferredCall(ev *Ev, d Deferred, k func(*State)) {
	u.deferredCall1(ev, d, k)
}

func (u *Unit) deferredCall1(ev *Ev, d Deferred, k func(*State)) {
	defer func() {
		if !ev.cpsTaken {
			k(ev.st)
		}
	}()
	// rescue.Recover-style helpers and recover() directly deferred are handled by contracts; plain call here.
	x := d.Call
	info := u.pkg.TypesInfo
	if tv, ok := info.Types[x.Fun]; ok && tv.IsType() {
		return
	}
	callee := typeutil.Callee(info, x)
	if b, ok := callee.(*types.Builtin); ok {
		if b.Name() == "recover" {
			// defer recover() does not recover (not called directly by a deferred function) — Go semantics
			return
		}
		ev.builtinPre(b.Name(), x, d.Args)
		return
	}
	if f, ok := callee.(*types.Func); ok {
		sig := f.Type().(*types.Signature)
		if f.Pkg() != nil && f.Pkg().Path() == "sync" {
			if sel, ok := ast.Unparen(x.Fun).(*ast.SelectorExpr); ok {
				tn := ""
				rt := sig.Recv().Type()
				if p, ok := rt.(*types.Pointer); ok {
					rt = p.Elem()
				}
				if n, ok := rt.(*types.Named); ok {
					tn = n.Obj().Name()
				}
				if tn == "Mutex" || tn == "RWMutex" || tn == "Locker" {
					u.lockOp(ev, sel.X, f.Name(), x)
					return
				}
				if tn == "WaitGroup" {
					u.wgOp(ev, sel.X, f.Name(), x)
					return
				}
			}
		}
		key := calleeKey(f)
		c := u.eng.cs.Funcs[key]
		if c == nil && d.Recv != nil && d.Recv.Typ != nil {
			c = u.eng.lookupMethodContract(d.Recv.Typ, f.Name())
		}
		ord := u.callOrdinal(x, f.Name())
		if c != nil {
			if c.Flags["runs_funcargs"] {
				ev.cpsTaken = true
				u.runFuncArgs(ev.st, d.Args, 0, func(s2 *State) {
					e2 := u.ev(s2, x.Pos())
					u.applyContract(e2, c, sig, d.Recv, d.Args, ord, x.Pos(), false)
					if c.Flags["recovers"] && s2.panicking {
						s2.panicking = false
						s2.recovered = true
					}
					k(s2)
				})
				return
			}
			u.applyContract(ev, c, sig, d.Recv, d.Args, ord, x.Pos(), false)
			if c.Flags["recovers"] && ev.st.panicking {
				ev.st.panicking = false
				ev.st.recovered = true
			}
			return
		}
		var pn []string
		for i := 0; i < sig.Params().Len(); i++ {
			pn = append(pn, sig.Params().At(i).Name())
		}
		u.callSiteClauses(ev, ord, pn, d.Args, d.Recv)
		if isDropped(u.eng.cs, key) || isPurePkg(u.eng.cs, f) {
			return
		}
		u.uncontracted[key] = true
		u.havocHeap(ev.st, "uncontracted deferred "+key)
		return
	}
	// function value
	fv := ev.expr(x.Fun)
	sig, _ := info.TypeOf(x.Fun).Underlying().(*types.Signature)
	if fv.K == vFunc && fv.Fn != nil {
		u.subsetErr(x.Pos(), "deferred call of a local closure variable is not supported")
		return
	}
	u.callOpaque(ev, fv, sig, d.Args, x)
}

func (ev *Ev) builtinPre(name string, x *ast.CallExpr, args []Value) {
	switch name {
	case "close":
		as := arraySort(SRef, SBool)
		ev.u.famSort("CH:closed", as)
		ev.u.setFam(ev.st, "CH:closed", as, app("store", ev.u.fam(ev.st, "CH:closed", as), args[0].T, "true"))
	case "delete":
		ev.builtin(name, x)
	}
}

// finishFrame: the activation's defers are done.
func (u *Unit) finishFrame(st *State) {
	fr := st.top()
	if len(st.frames) > 1 {
		st.frames = st.frames[:len(st.frames)-1]
		if st.panicking && !fr.panicAtEntry {
			// propagate into the caller frame
			u.runDefers(st)
			return
		}
		var vals []Value
		if len(fr.results) > 0 {
			for _, o := range fr.results {
				vals = append(vals, st.env[o])
			}
		} else {
			vals = fr.resVals
		}
		if fr.retK != nil {
			fr.retK(st, vals)
		}
		return
	}
	// outermost frame: check postconditions
	u.checkExit(st, fr)
}

// isHeapTarget: does the assignment target denote heap memory (through a pointer, slice or map) rather than a local?
func (u *Unit) isHeapTarget(e ast.Expr) bool {
	info := u.pkg.TypesInfo
	for {
		switch x := ast.Unparen(e).(type) {
		case *ast.Ident:
			if obj, ok := info.ObjectOf(x).(*types.Var); ok && obj.Parent() != nil && obj.Pkg() != nil && obj.Parent() == obj.Pkg().Scope() {
				return true // package-level variable
			}
			return false
		case *ast.SelectorExpr:
			if t := info.TypeOf(x.X); t != nil {
				if _, ok := t.Underlying().(*types.Pointer); ok {
					return true
				}
			}
			e = x.X
		default:
			return true
		}
	}
}

// isHarmlessCall: conversions, non-mutating builtins and calls into pure packages / math do not write the heap.
func (u *Unit) isHarmlessCall(x *ast.CallExpr) bool {
	info := u.pkg.TypesInfo
	if tv, ok := info.Types[x.Fun]; ok && tv.IsType() {
		return true
	}
	switch c := typeutil.Callee(info, x).(type) {
	case *types.Builtin:
		switch c.Name() {
		case "len", "cap", "min", "max", "real", "imag", "complex":
			return true
		}
	case *types.Func:
		if c.Pkg() != nil && (c.Pkg().Path() == "math" || isPurePkg(u.eng.cs, c)) {
			return true
		}
		if cc := u.eng.cs.Funcs[calleeKey(c)]; cc != nil && cc.HasMod && len(cc.Modifies) == 0 && !cc.Flags["allocates"] {
			return true
		}
	}
	return false
}

// goOrdOf numbers go statements of the unit's body in source order.
func (u *Unit) sendOrdOf(g *ast.SendStmt) int {
	n, found := 0, -1
	ast.Inspect(u.body, func(nd ast.Node) bool {
		if _, isLit := nd.(*ast.FuncLit); isLit {
			return false // sends inside nested literals belong to those units
		}
		if gs, ok := nd.(*ast.SendStmt); ok {
			if gs == g {
				found = n
			}
			n++
		}
		return true
	})
	return found
}

func (u *Unit) goOrdOf(g *ast.GoStmt) int {
	n, found := 0, -1
	ast.Inspect(u.body, func(nd ast.Node) bool {
		if gs, ok := nd.(*ast.GoStmt); ok {
			if gs == g {
				found = n
			}
			n++
		}
		return true
	})
	return found
}

// anchorsIn decides whether a ghost anchor lies inside the given loop body (or its post statement). Anchors that cannot
// be located syntactically (select arms, closures) count as inside.
func (u *Unit) anchorsIn(body ast.Node, extra []ast.Node) func(string) bool {
	ords := map[string]bool{}
	loops := map[string]bool{}
	rets := map[int]bool{}
	lits := map[int]bool{}
	vague := false
	visit := func(n ast.Node) bool {
		switch x := n.(type) {
		case *ast.CallExpr:
			if o, ok := u.callOrd[x]; ok {
				ords[o] = true
			}
		case *ast.ForStmt, *ast.RangeStmt:
			if id, ok := u.loopOrd[x.(ast.Stmt)]; ok {
				loops[id] = true
			}
		case *ast.ReturnStmt:
			if k, ok := u.retOrd[x]; ok {
				rets[k] = true
			}
		case *ast.FuncLit:
			if k, ok := u.litOrd[x]; ok {
				lits[k] = true
			}
		case *ast.SelectStmt, *ast.GoStmt:
			vague = true
		}
		return true
	}
	if body != nil {
		ast.Inspect(body, visit)
	}
	for _, e := range extra {
		if e != nil {
			ast.Inspect(e, visit)
		}
	}
	// the loop statement the body belongs to
	for stmt, id := range u.loopOrd {
		switch x := stmt.(type) {
		case *ast.ForStmt:
			if x.Body == body {
				loops[id] = true
			}
		case *ast.RangeStmt:
			if x.Body == body {
				loops[id] = true
			}
		}
	}
	return func(anchor string) bool {
		f := strings.Fields(anchor)
		switch {
		case anchor == "entry":
			return false
		case len(f) == 2 && (f[0] == "before" || f[0] == "after"):
			return ords[f[1]]
		case len(f) == 3 && (f[0] == "begin" || f[0] == "end") && f[1] == "loop":
			return loops[f[2]]
		case strings.HasPrefix(anchor, "return#") || strings.HasPrefix(anchor, "returned#"):
			var k int
			fmt.Sscanf(anchor[strings.Index(anchor, "#")+1:], "%d", &k)
			return rets[k]
		case len(f) == 3 && f[0] == "lit" && f[2] == "entry":
			var k int
			fmt.Sscanf(f[1], "%d", &k)
			return lits[k]
		case strings.HasPrefix(anchor, "go#") || strings.HasPrefix(anchor, "arm ") || strings.HasPrefix(anchor, "send#"):
			return vague
		}
		return true
	}
}

// appendsTo: the node contains append(v, ...) for the local v.
func appendsTo(n ast.Node, v types.Object, info *types.Info) bool {
	found := false
	ast.Inspect(n, func(nn ast.Node) bool {
		if c, ok := nn.(*ast.CallExpr); ok && len(c.Args) > 0 {
			if id, ok := ast.Unparen(c.Fun).(*ast.Ident); ok && id.Name == "append" {
				if a, ok := ast.Unparen(c.Args[0]).(*ast.Ident); ok && info.ObjectOf(a) == v {
					found = true
				}
			}
		}
		return !found
	})
	return found
}
