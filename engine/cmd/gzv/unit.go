package main

import (
	"fmt"
	"go/ast"
	"go/constant"
	"go/token"
	"go/types"
	"math/big"
	"sort"
	"strings"

	"golang.org/x/tools/go/packages"
)

// Unit is one verification unit: a function, method or closure body under contract.
type Unit struct {
	eng          *Engine
	pkg          *packages.Package
	c            *Contract
	name         string
	fdecl        *ast.FuncDecl
	lit          *ast.FuncLit
	ftype        *ast.FuncType
	body         *ast.BlockStmt
	sig          *types.Signature
	recvObj      *types.Var
	decls        []string
	declared     map[string]bool
	axioms       []string
	nfresh       int
	obls         []*Obligation
	floatIEEE    bool
	overflow     bool
	entry        *State
	assumptions  map[string]bool
	uncontracted map[string]bool
	paths        int
	strLits      map[string]string
	errGlobals   []string
	oblCount     map[string]int
	subsetErrs   []string
	loopOrd      map[ast.Stmt]string
	callOrd      map[*ast.CallExpr]string
	litOrd       map[*ast.FuncLit]int
	allocd       map[string]bool
	views        map[string]viewInfo // re-sliced views s[a:b], a > 0: view array -> (base array, offset)
	cuts         map[string]bool     // re-sliced prefixes s[:k] made by this unit: "arr|len" of the resulting slice value
	allocT       map[string]types.Type // struct type of objects allocated by this unit (publish rule for lock invariants)
	resultObjs   []types.Object
	synthResults []*types.Var
	reached      map[string]bool
	maxPaths     int
	missing      bool
	entryHeld    map[string]bool
	iterLists    []string
	condAxioms   []condAxiom
	lastRawArgs  []Value
	oldRebased   bool
	retOrd       map[*ast.ReturnStmt]int
	selfInvKey   string // receiver type with an object invariant (methods of T)
}

// condAxiom is a quantified definitional axiom that is only added to obligations in which the symbol is applied to a bound variable.
type condAxiom struct{ sym, ax string }

// appliedToBound reports whether text contains an application of sym whose arguments mention a bound variable (name with '$').
func appliedToBound(text, sym string) bool {
	for i := 0; ; {
		j := strings.Index(text[i:], sym)
		if j < 0 {
			return false
		}
		start := i + j
		depth := 0
		k := start
		for ; k < len(text); k++ {
			if text[k] == '(' {
				depth++
			} else if text[k] == ')' {
				depth--
				if depth == 0 {
					break
				}
			}
		}
		if k > len(text)-1 {
			k = len(text) - 1
		}
		if strings.Contains(text[start:k+1], "$") {
			return true
		}
		i = start + len(sym)
	}
}

func (u *Unit) fresh(prefix string, s Sort) string {
	u.nfresh++
	name := fmt.Sprintf("%s!%d", prefix, u.nfresh)
	name = quoteIfNeeded(name)
	u.decls = append(u.decls, fmt.Sprintf("(declare-const %s %s)", name, s))
	return name
}

func quoteIfNeeded(s string) string {
	for _, c := range s {
		if !(c >= 'a' && c <= 'z' || c >= 'A' && c <= 'Z' || c >= '0' && c <= '9' || strings.ContainsRune("_!.$@", c)) {
			return quote(s)
		}
	}
	return s
}

func (u *Unit) declare(name string, s Sort) string {
	if !u.declared[name] {
		u.declared[name] = true
		u.decls = append(u.decls, fmt.Sprintf("(declare-const %s %s)", name, s))
	}
	return name
}

func (u *Unit) declareFun(name string, args []Sort, res Sort) string {
	key := "fun:" + name
	if !u.declared[key] {
		u.declared[key] = true
		var as []string
		for _, a := range args {
			as = append(as, string(a))
		}
		u.decls = append(u.decls, fmt.Sprintf("(declare-fun %s (%s) %s)", name, strings.Join(as, " "), res))
	}
	return name
}

func (u *Unit) assumeNote(s string) { u.assumptions[s] = true }

func (u *Unit) subsetErr(pos token.Pos, format string, a ...any) {
	msg := fmt.Sprintf(format, a...)
	if pos.IsValid() && u.pkg != nil {
		p := u.pkg.Fset.Position(pos)
		msg = fmt.Sprintf("%s (at %s:%d)", msg, shortFile(p.Filename), p.Line)
	}
	for _, e := range u.subsetErrs {
		if e == msg {
			return
		}
	}
	u.subsetErrs = append(u.subsetErrs, msg)
}

func shortFile(f string) string {
	return strings.TrimPrefix(f, "/repo/")
}

// fam returns the current term of a heap family in state st (declaring its initial version on demand).
func (u *Unit) fam(st *State, key string, s Sort) string {
	if t, ok := st.heap[key]; ok {
		return t
	}
	// a family first read after a havoc-everything event gets that epoch's version (never the entry version)
	ep := st.heapEpoch
	switch {
	case strings.HasPrefix(key, "G:"):
		ep = st.ghostEpoch
	case key == "alloc" || strings.HasPrefix(key, "V:"):
		ep = 0
	case strings.HasPrefix(key, "CH:") && u.c != nil && u.c.Flags["private_channels"]:
		ep = 0
	}
	name := quote(key + "@0")
	if ep > 0 {
		name = quote(fmt.Sprintf("%s@e%d", key, ep))
	}
	u.declare(name, s)
	return name
}

func (u *Unit) setFam(st *State, key string, s Sort, term string) {
	n := u.fresh(strings.Trim(quote(key), "|"), s)
	st.assume(app("=", n, term))
	st.heap[key] = n
}

func (u *Unit) havocFam(st *State, key string, s Sort) string {
	n := u.fresh(strings.Trim(quote(key), "|"), s)
	st.heap[key] = n
	return n
}

// famSorts remembers the sort of every family touched so that havoc-all can enumerate them.
func (u *Unit) famSort(key string, s Sort) {
	u.eng.mu.Lock()
	u.eng.famSorts[key] = s
	u.eng.mu.Unlock()
}

func (u *Unit) heapFieldKey(root types.Type, path string) string {
	return "H:" + typeKey(root) + "." + path
}

func (u *Unit) readField(st *State, root types.Type, path string, s Sort, ref string) string {
	key := u.heapFieldKey(root, path)
	as := arraySort(SRef, s)
	u.famSort(key, as)
	return app("select", u.fam(st, key, as), ref)
}

func (u *Unit) writeField(st *State, root types.Type, path string, s Sort, ref, val string) {
	key := u.heapFieldKey(root, path)
	as := arraySort(SRef, s)
	u.famSort(key, as)
	u.setFam(st, key, as, app("store", u.fam(st, key, as), ref, val))
}

func (u *Unit) zeroOf(s Sort) string {
	switch s {
	case SInt:
		return "0"
	case SBool:
		return "false"
	case SReal:
		return "0.0"
	case SFP:
		return "(_ +zero 11 53)"
	}
	if _, vs, ok := s.isArray(); ok {
		return fmt.Sprintf("((as const %s) %s)", s, u.zeroOf(vs))
	}
	return "nil"
}

func (u *Unit) zero(t types.Type) Value {
	return u.build(t, "", func(path string, s Sort, lt types.Type) string {
		return u.zeroOf(s)
	})
}

// freshValue builds a fully symbolic value of type t.
func (u *Unit) freshValue(t types.Type, name string, st *State) Value {
	v := u.build(t, "", func(path string, s Sort, lt types.Type) string {
		n := name
		if path != "" {
			n = name + "." + path
		}
		c := u.fresh(n, s)
		return c
	})
	u.typeFacts(st, v)
	return v
}

// typeFacts assumes range facts from Go types (unsigned >= 0, len >= 0).
func (u *Unit) typeFacts(st *State, v Value) {
	walkValue(v, "", func(path string, lv Value) {
		if strings.HasSuffix(path, "#len") {
			st.assume(app(">=", lv.T, "0"))
			return
		}
		if lv.S == SInt && lv.Typ != nil {
			if lo, hi, ok := intRange(lv.Typ); ok {
				if lo != "" {
					st.assume(app(">=", lv.T, lo))
				}
				if hi != "" && u.overflow {
					st.assume(app("<=", lv.T, hi))
				}
			}
		}
	})
}

func intRange(t types.Type) (lo, hi string, ok bool) {
	b, isB := t.Underlying().(*types.Basic)
	if !isB || b.Info()&types.IsInteger == 0 {
		return "", "", false
	}
	switch b.Kind() {
	case types.Uint8:
		return "0", "255", true
	case types.Uint16:
		return "0", "65535", true
	case types.Uint32:
		return "0", "4294967295", true
	case types.Uint64, types.Uint, types.Uintptr:
		return "0", "18446744073709551615", true
	case types.Int8:
		return "(- 128)", "127", true
	case types.Int16:
		return "(- 32768)", "32767", true
	case types.Int32:
		return "(- 2147483648)", "2147483647", true
	case types.Int64, types.Int:
		return "(- 9223372036854775808)", "9223372036854775807", true
	}
	return "", "", false
}

func (u *Unit) strLit(s string) string {
	if n, ok := u.strLits[s]; ok {
		return n
	}
	disp := s
	if len(disp) > 24 {
		disp = disp[:24]
	}
	disp = strings.Map(func(r rune) rune {
		if r >= 'a' && r <= 'z' || r >= 'A' && r <= 'Z' || r >= '0' && r <= '9' || strings.ContainsRune("_-./:%,=", r) {
			return r
		}
		return '_'
	}, disp)
	name := quote(fmt.Sprintf("str:%d:%s", len(u.strLits), disp))
	u.declare(name, SRef)
	u.axioms = append(u.axioms, app("=", app("strlen", name), fmt.Sprint(len(s))))
	u.axioms = append(u.axioms, app("not", app("=", name, "nil")))
	for _, other := range u.strLits {
		u.axioms = append(u.axioms, app("not", app("=", name, other)))
	}
	u.strLits[s] = name
	return name
}

func (u *Unit) constValue(cv constant.Value, t types.Type) Value {
	s := u.sortOf(t)
	switch cv.Kind() {
	case constant.Bool:
		if constant.BoolVal(cv) {
			return boolV("true")
		}
		return boolV("false")
	case constant.String:
		return scalar(u.strLit(constant.StringVal(cv)), SRef, t)
	case constant.Int:
		if s == SReal || s == SFP {
			return u.realConst(cv, t)
		}
		bi, ok := constant.Val(cv).(*big.Int)
		var str string
		if ok {
			str = bi.String()
		} else {
			i64, _ := constant.Int64Val(cv)
			str = fmt.Sprint(i64)
		}
		if strings.HasPrefix(str, "-") {
			str = "(- " + str[1:] + ")"
		}
		if s == SRef {
			// integer constant converted to interface: box
			return scalar(app("box_int", str), SRef, t)
		}
		return scalar(str, SInt, t)
	case constant.Float:
		if s == SInt {
			// e.g. untyped float constant used as integer
			i, _ := constant.Int64Val(constant.ToInt(cv))
			return scalar(intLit(i), SInt, t)
		}
		return u.realConst(cv, t)
	}
	return scalar("nil", SRef, t)
}

func (u *Unit) realConst(cv constant.Value, t types.Type) Value {
	num := constant.Num(cv)
	den := constant.Denom(cv)
	ns := num.ExactString()
	ds := den.ExactString()
	neg := strings.HasPrefix(ns, "-")
	ns = strings.TrimPrefix(ns, "-")
	var term string
	if ds == "1" {
		term = ns + ".0"
	} else {
		term = fmt.Sprintf("(/ %s.0 %s.0)", ns, ds)
	}
	if neg {
		term = "(- " + term + ")"
	}
	if u.sortOf(t) == SFP || (t == nil && u.floatIEEE) {
		return scalar(fmt.Sprintf("((_ to_fp 11 53) RNE %s)", term), SFP, t)
	}
	return scalar(term, SReal, t)
}

// emit records an obligation.
func (u *Unit) emit(st *State, kind, goal, note string) {
	if goal == "true" {
		// still count it as trivially discharged? keep it: the solver confirms.
	}
	n := u.oblCount[kind]
	u.oblCount[kind] = n + 1
	name := fmt.Sprintf("%s/%s", u.name, kind)
	if n > 0 {
		name = fmt.Sprintf("%s~p%d", name, n)
	}
	// skolemise, then split conjunctions (also under implications) into separate obligations: smaller queries, sharper diagnostics
	if strings.Contains(goal, "(and ") || strings.Contains(goal, "(forall ") {
		g2, decls := skolemizeGoal(goal)
		u.decls = append(u.decls, decls...)
		t, _ := parseSx(tokenize(g2), 0)
		parts := splitGoal(t)
		if len(parts) > 1 && len(parts) <= 24 {
			hy := append([]string(nil), st.pc...)
			for i, c := range parts {
				o := &Obligation{Name: fmt.Sprintf("%s.%d", name, i), Func: u.name, Kind: kind, Hyps: hy, Goal: c.String(), Note: note}
				u.obls = append(u.obls, o)
			}
			return
		}
		goal = g2
	}
	o := &Obligation{Name: name, Func: u.name, Kind: kind, Hyps: append([]string(nil), st.pc...), Goal: goal, Note: note}
	u.obls = append(u.obls, o)
}

// emitReach records a satisfiability check of the current path condition whose first prefixN hypotheses describe the
// state before some assumption (callee ensures, lock invariant) was added: unsat now but sat before = the assumption
// is contradictory (everything after it would hold vacuously).
func (u *Unit) emitReach(st *State, kind string, prefixN int, note string) {
	n := u.oblCount[kind]
	u.oblCount[kind] = n + 1
	if n >= 3 {
		return
	}
	name := fmt.Sprintf("%s/%s", u.name, kind)
	if n > 0 {
		name = fmt.Sprintf("%s~p%d", name, n)
	}
	o := &Obligation{Name: name, Func: u.name, Kind: kind, Hyps: append([]string(nil), st.pc...), Goal: "false", ExpectSat: true, Note: note, PrefixN: prefixN, HasPrefix: true}
	u.obls = append(u.obls, o)
}

func (u *Unit) emitSat(st *State, kind, note string) {
	n := u.oblCount[kind]
	u.oblCount[kind] = n + 1
	name := fmt.Sprintf("%s/%s", u.name, kind)
	if n > 0 {
		name = fmt.Sprintf("%s~p%d", name, n)
	}
	o := &Obligation{Name: name, Func: u.name, Kind: kind, Hyps: append([]string(nil), st.pc...), Goal: "false", ExpectSat: true, Note: note}
	u.obls = append(u.obls, o)
}

func (u *Unit) finalize() {
	// dedupe obligations with identical hyps+goal+kind prefix
	for _, o := range u.obls {
		o.Decls = u.decls
		ax := append([]string(nil), u.axioms...)
		for _, ca := range u.condAxioms {
			need := appliedToBound(o.Goal, ca.sym)
			for _, h := range o.Hyps {
				if need {
					break
				}
				need = appliedToBound(h, ca.sym)
			}
			if need {
				ax = append(ax, ca.ax)
			}
		}
		nAx := len(ax)
		o.Hyps = append(ax, o.Hyps...)
		if o.HasPrefix {
			o.PrefixN += nAx
		}
		if u.c != nil {
			o.Property = u.c.Props
		}
	}
}

func sortedKeys[V any](m map[string]V) []string {
	var ks []string
	for k := range m {
		ks = append(ks, k)
	}
	sort.Strings(ks)
	return ks
}

// splitGoal splits a goal into conjuncts, distributing implications: (=> a (and b c)) gives (=> a b), (=> a c).
func splitGoal(t *sx) []*sx {
	switch t.head() {
	case "and":
		var out []*sx
		for _, c := range t.list[1:] {
			out = append(out, splitGoal(c)...)
		}
		return out
	case "=>":
		if len(t.list) == 3 {
			var out []*sx
			for _, c := range splitGoal(t.list[2]) {
				out = append(out, &sx{list: []*sx{t.list[0], t.list[1], c}})
			}
			return out
		}
	}
	return []*sx{t}
}

// dynamic types of objects allocated in verified code: dyntype(ref) = id of the (pointer) type
func (u *Unit) dynTypeFn() string { return "dyntype" } // declared in the prelude

func (u *Unit) dynTypeID(t types.Type) string {
	h := uint32(2166136261)
	for _, c := range []byte(typeKey(t)) {
		h ^= uint32(c)
		h *= 16777619
	}
	return fmt.Sprint(h)
}
