package main

import (
	"flag"
	"fmt"
	"os"
	"runtime"
	"sync"
	"time"
)

func main() {
	if len(os.Args) < 2 {
		fmt.Fprintln(os.Stderr, "usage: gzv check|list|replay ...")
		os.Exit(2)
	}
	switch os.Args[1] {
	case "check":
		os.Exit(cmdCheck(os.Args[2:]))
	case "replay":
		os.Exit(cmdReplay(os.Args[2:]))
	case "drivers":
		os.Exit(cmdDrivers(os.Args[2:]))
	default:
		fmt.Fprintln(os.Stderr, "unknown command", os.Args[1])
		os.Exit(2)
	}
}

func cmdCheck(args []string) int {
	fs := flag.NewFlagSet("check", flag.ExitOnError)
	prop := fs.String("property", "", "property id")
	tier := fs.String("tier", "quick", "quick|thorough")
	repo := fs.String("repo", "/repo", "repository root")
	verif := fs.String("verif", "/verif", "verif root")
	verbose := fs.Bool("v", false, "verbose")
	only := fs.String("func", "", "only units whose name contains this")
	dump := fs.String("dump", "", "dump SMT of obligations whose name contains this")
	noEvidence := fs.Bool("no-evidence", false, "do not write evidence / replay files")
	noReplay := fs.Bool("no-replay", false, "do not run replay drivers on failed obligations")
	withBounded := fs.Bool("bounded", false, "run the bounded stand-ins even with -no-replay")
	fs.Parse(args)
	if t := os.Getenv("VERIF_TIER"); t == "quick" || t == "thorough" {
		*tier = t
	}
	seed := 0
	if s := os.Getenv("VERIF_SEED"); s != "" {
		fmt.Sscan(s, &seed)
	}
	t0 := time.Now()
	e := newEngine(*repo, *verif)
	e.verbose = *verbose
	e.noReplay = *noReplay
	e.forceBounded = *withBounded
	if err := e.discover(); err != nil {
		fmt.Println("discover:", err)
		return 2
	}
	needed := map[string]bool{}
	for _, c := range e.cs.Order {
		if *prop == "" || hasProp(c.Props, *prop) {
			needed[c.PkgPath] = true
		}
	}
	// callee contracts may live in other contract packages: load all of them when any unit needs them (cheap),
	// but restrict to the property's packages plus the packages of contracts they can reference.
	if err := e.load(nil); err != nil {
		fmt.Println("load:", err)
		return 2
	}
	tLoad := time.Since(t0)
	units := e.unitsFor(*prop)
	var all []*Obligation
	var us []*Unit
	for _, c := range units {
		if *only != "" && !contains(c.Key, *only) {
			continue
		}
		u := e.runUnit(c)
		us = append(us, u)
		all = append(all, u.obls...)
	}
	lemObls := e.runLemmas(*prop)
	all = append(all, lemObls...)
	luaObls, luaUnits := e.runLua(*prop)
	all = append(all, luaObls...)
	tGen := time.Since(t0) - tLoad
	timeout := 10000
	if *tier == "thorough" {
		timeout = 60000
	}
	tmp, _ := os.MkdirTemp("", "gzv-smt-")
	defer os.RemoveAll(tmp)
	var wg sync.WaitGroup
	sem := make(chan struct{}, runtime.NumCPU())
	for _, o := range all {
		if o.Status != "" {
			continue
		}
		o := o
		wg.Add(1)
		sem <- struct{}{}
		go func() {
			defer wg.Done()
			defer func() { <-sem }()
			decide(o, tmp, timeout, *tier == "thorough")
		}()
	}
	wg.Wait()
	if *dump != "" {
		for _, o := range all {
			if contains(o.Name, *dump) {
				os.WriteFile("/tmp/"+sanitize(o.Name)+".smt2", []byte(o.smt(true)), 0o644)
			}
		}
	}
	res := e.report(*prop, *tier, seed, us, luaUnits, all, t0, *verbose, !*noEvidence && *only == "")
	fmt.Printf("property=%s units=%d obligations=%d discharged=%d violations=%d known=%d load=%v gen=%v total=%v\n", *prop, len(us)+len(luaUnits), res.obligations, res.discharged,
		res.violations, res.known, tLoad.Round(time.Millisecond), tGen.Round(time.Millisecond), time.Since(t0).Round(time.Millisecond))
	if res.violations > 0 || res.broken {
		return 1
	}
	return 0
}

func contains(s, sub string) bool {
	return len(sub) == 0 || (len(s) >= len(sub) && (stringIndex(s, sub) >= 0))
}

func stringIndex(s, sub string) int {
	for i := 0; i+len(sub) <= len(s); i++ {
		if s[i:i+len(sub)] == sub {
			return i
		}
	}
	return -1
}

func trunc(s string, n int) string {
	if len(s) > n {
		return s[:n] + "..."
	}
	return s
}
