package main

import (
	"fmt"
	"go/ast"
	"go/constant"
	"go/token"
	"go/types"
	"strconv"
	"strings"

	"golang.org/x/tools/go/packages"
)

// Ev evaluates Go expressions (code mode) and contract expressions (spec mode).
type Ev struct {
	u            *Unit
	st           *State
	old          *State
	spec         bool
	binds        map[string]Value
	pkg          *packages.Package // name-resolution context
	scopePos     token.Pos
	where        string // for error messages
	callSiteOld  bool
	guardedCheck func(lv *LValue, path string)
	depth        int
	cpsTaken     bool
}

func (ev *Ev) sub() *Ev {
	n := *ev
	n.binds = map[string]Value{}
	for k, v := range ev.binds {
		n.binds[k] = v
	}
	return &n
}

func (ev *Ev) errorf(pos token.Pos, format string, a ...any) Value {
	msg := fmt.Sprintf(format, a...)
	if ev.spec {
		ev.u.eng.specError(ev.where + ": " + msg)
	} else {
		ev.u.subsetErr(pos, "%s", msg)
	}
	return scalar(ev.u.fresh("err", SRef), SRef, nil)
}

func (ev *Ev) info() *types.Info {
	if ev.u.pkg != nil {
		return ev.u.pkg.TypesInfo
	}
	return nil
}

func (ev *Ev) typeOf(e ast.Expr) types.Type {
	if ev.spec || ev.info() == nil {
		return nil
	}
	if tv, ok := ev.info().Types[e]; ok {
		return tv.Type
	}
	if id, ok := e.(*ast.Ident); ok {
		if o := ev.info().ObjectOf(id); o != nil {
			return o.Type()
		}
	}
	return nil
}

// ---- type expression resolution (spec mode) ----

func (ev *Ev) resolveType(e ast.Expr) types.Type {
	switch t := e.(type) {
	case *ast.Ident:
		switch t.Name {
		case "any":
			return types.Universe.Lookup("any").Type()
		case "ref":
			return types.Universe.Lookup("any").Type()
		}
		if o := types.Universe.Lookup(t.Name); o != nil {
			if tn, ok := o.(*types.TypeName); ok {
				return tn.Type()
			}
		}
		if ev.pkg != nil {
			if o := ev.pkg.Types.Scope().Lookup(t.Name); o != nil {
				if tn, ok := o.(*types.TypeName); ok {
					return tn.Type()
				}
			}
		}
		// search all loaded packages by bare name (ghost declarations in extern specs)
		ev.errorf(e.Pos(), "unknown type %s", t.Name)
		return nil
	case *ast.StarExpr:
		el := ev.resolveType(t.X)
		if el == nil {
			return types.NewPointer(types.Typ[types.Int])
		}
		return types.NewPointer(el)
	case *ast.ParenExpr:
		return ev.resolveType(t.X)
	case *ast.MapType:
		k := ev.resolveType(t.Key)
		v := ev.resolveType(t.Value)
		if k == nil || v == nil {
			return nil
		}
		return types.NewMap(k, v)
	case *ast.ArrayType:
		el := ev.resolveType(t.Elt)
		if el == nil {
			return nil
		}
		return types.NewSlice(el)
	case *ast.SelectorExpr:
		if id, ok := t.X.(*ast.Ident); ok {
			if p := ev.lookupPkg(id.Name); p != nil {
				if o := p.Scope().Lookup(t.Sel.Name); o != nil {
					return o.Type()
				}
			}
		}
		ev.errorf(e.Pos(), "unknown type %s", exprString(e))
		return nil
	case *ast.FuncType:
		return types.NewSignatureType(nil, nil, nil, nil, nil, false)
	case *ast.InterfaceType:
		return types.Universe.Lookup("any").Type()
	case *ast.IndexExpr: // generic instantiation: ignore args
		return ev.resolveType(t.X)
	}
	ev.errorf(e.Pos(), "unsupported type expression %s", exprString(e))
	return nil
}

func (ev *Ev) lookupPkg(name string) *types.Package {
	if ev.pkg != nil {
		for _, imp := range ev.pkg.Types.Imports() {
			if imp.Name() == name {
				return imp
			}
		}
		// renamed imports: search file scopes
		for _, f := range ev.pkg.Syntax {
			for _, is := range f.Imports {
				if is.Name != nil && is.Name.Name == name {
					path, _ := strconv.Unquote(is.Path.Value)
					for _, imp := range ev.pkg.Types.Imports() {
						if imp.Path() == path {
							return imp
						}
					}
				}
			}
		}
	}
	if p := ev.u.eng.pkgByName(name); p != nil {
		return p
	}
	return nil
}

func exprString(e ast.Expr) string { return types.ExprString(e) }

// sortOfTypeExpr for ghost declarations: map[K]V -> Array
func (ev *Ev) ghostSort(t types.Type) Sort {
	if t == nil {
		return SRef
	}
	if m, ok := t.Underlying().(*types.Map); ok {
		return arraySort(ev.ghostSort(m.Key()), ev.ghostSort(m.Elem()))
	}
	if s := ev.u.sortOf(t); s != "" {
		if s == SFP {
			return SReal
		}
		return s
	}
	return SRef
}

// ---- identifiers ----

func (ev *Ev) ident(id *ast.Ident) Value {
	name := id.Name
	if v, ok := ev.binds[name]; ok {
		return v
	}
	switch name {
	case "nil":
		return scalar("nil", SRef, types.Typ[types.UntypedNil])
	case "true":
		return boolV("true")
	case "false":
		return boolV("false")
	case "_":
		return scalar(ev.u.fresh("blank", SRef), SRef, nil)
	}
	if !ev.spec {
		obj := ev.info().ObjectOf(id)
		if obj == nil {
			return ev.errorf(id.Pos(), "unresolved identifier %s", name)
		}
		return ev.object(obj, id)
	}
	if v, ok := ev.st.lets[name]; ok {
		return v
	}
	if g, ok := ev.u.eng.cs.Ghosts[name]; ok {
		return ev.ghostVar(g)
	}
	// Go scope lookup
	if ev.pkg != nil {
		var obj types.Object
		if ev.scopePos.IsValid() {
			if sc := ev.pkg.Types.Scope().Innermost(ev.scopePos); sc != nil {
				_, obj = sc.LookupParent(name, ev.scopePos)
			}
		}
		if obj == nil {
			obj = ev.pkg.Types.Scope().Lookup(name)
		}
		if obj == nil {
			obj = types.Universe.Lookup(name)
		}
		if obj != nil {
			return ev.object(obj, id)
		}
	}
	if p := ev.lookupPkg(name); p != nil {
		return Value{K: vPkg, Pkg: p}
	}
	return ev.errorf(id.Pos(), "unknown name %q in contract", name)
}

func (ev *Ev) ghostVar(g *GhostVar) Value {
	tev := &Ev{u: ev.u, st: ev.st, spec: true, pkg: ev.u.eng.pkgs[g.PkgPath], where: g.File}
	t := tev.resolveType(g.Type)
	s := ev.ghostSort(t)
	key := "G:" + g.Name
	ev.u.famSort(key, s)
	return Value{K: vScalar, T: ev.u.fam(ev.st, key, s), S: s, Typ: t}
}

func (ev *Ev) object(obj types.Object, at ast.Node) Value {
	switch o := obj.(type) {
	case *types.Var:
		if v, ok := ev.st.env[o]; ok {
			return v
		}
		if o.IsField() {
			return ev.errorf(at.Pos(), "bare field reference %s", o.Name())
		}
		if o.Parent() != nil && o.Pkg() != nil && o.Parent() == o.Pkg().Scope() {
			return ev.global(o)
		}
		// captured / unknown local: introduce a symbol (closure capture) — stable per object
		v := ev.u.captured(ev.st, o)
		return v
	case *types.Const:
		return ev.u.constValue(o.Val(), o.Type())
	case *types.Nil:
		return scalar("nil", SRef, types.Typ[types.UntypedNil])
	case *types.TypeName:
		return Value{K: vType, Typ: o.Type()}
	case *types.PkgName:
		return Value{K: vPkg, Pkg: o.Imported()}
	case *types.Func:
		return Value{K: vMethod, Obj: o, Typ: o.Type(), T: ev.u.funcRef(o), S: SRef}
	case *types.Builtin:
		return Value{K: vMethod, Obj: o}
	}
	return ev.errorf(at.Pos(), "unsupported object %v", obj)
}

// funcRef returns a constant Ref denoting a declared function used as a value.
func (u *Unit) funcRef(f *types.Func) string {
	name := quote("fn:" + normGeneric(f.FullName()))
	if !u.declared[name] {
		u.declare(name, SRef)
		u.axioms = append(u.axioms, app("not", app("=", name, "nil")))
	}
	return name
}

func (u *Unit) captured(st *State, o *types.Var) Value {
	key := "cap:" + o.Name()
	if v, ok := st.lets[key]; ok {
		return v
	}
	v := u.freshValue(o.Type(), o.Name(), u.entry)
	// typeFacts were assumed in entry; also in current state
	u.typeFacts(st, v)
	st.lets[key] = v
	if u.entry != nil {
		u.entry.lets[key] = v
	}
	st.env[o] = v
	return v
}

func (ev *Ev) global(o *types.Var) Value {
	u := ev.u
	key := "V:" + o.Pkg().Name() + "." + o.Name()
	t := o.Type()
	if s := u.sortOf(t); s != "" {
		u.famSort(key, s)
		term := u.fam(ev.st, key, s)
		if s == SRef && isErrorType(t) {
			u.errGlobal(term)
		}
		return scalar(term, s, t)
	}
	// composite global
	return u.build(t, "", func(path string, s Sort, lt types.Type) string {
		k := key + "." + path
		u.famSort(k, s)
		return u.fam(ev.st, k, s)
	})
}

func isErrorType(t types.Type) bool {
	return t != nil && types.Identical(t, types.Universe.Lookup("error").Type())
}

// errGlobal: package-level error sentinels are non-nil and pairwise distinct.
func (u *Unit) errGlobal(term string) {
	for _, e := range u.errGlobals {
		if e == term {
			return
		}
	}
	u.axioms = append(u.axioms, app("not", app("=", term, "nil")))
	for _, e := range u.errGlobals {
		u.axioms = append(u.axioms, app("not", app("=", term, e)))
	}
	u.errGlobals = append(u.errGlobals, term)
}

// ---- main expression evaluation ----

func (ev *Ev) expr(e ast.Expr) Value {
	if !ev.spec {
		if tv, ok := ev.info().Types[e]; ok && tv.Value != nil {
			if _, isLit := e.(*ast.FuncLit); !isLit {
				val := tv.Value
				if !ev.u.floatIEEE && ev.u.sortOf(tv.Type) == SReal {
					// float real: decimal constants are read as exact decimals, not as their float64 rounding
					switch x := ast.Unparen(e).(type) {
					case *ast.BasicLit:
						if x.Kind == token.FLOAT || x.Kind == token.INT {
							val = constant.MakeFromLiteral(x.Value, x.Kind, 0)
						}
					case *ast.Ident:
						if c, ok := ev.info().ObjectOf(x).(*types.Const); ok {
							val = c.Val()
						}
					case *ast.SelectorExpr:
						if c, ok := ev.info().ObjectOf(x.Sel).(*types.Const); ok {
							val = c.Val()
						}
					}
				}
				return ev.u.constValue(val, tv.Type)
			}
		}
	}
	switch x := e.(type) {
	case *ast.ParenExpr:
		return ev.expr(x.X)
	case *ast.Ident:
		return ev.ident(x)
	case *ast.BasicLit:
		return ev.basicLit(x)
	case *ast.UnaryExpr:
		return ev.unary(x)
	case *ast.BinaryExpr:
		return ev.binary(x)
	case *ast.CallExpr:
		return ev.callExpr(x)
	case *ast.SelectorExpr:
		return ev.selector(x)
	case *ast.IndexExpr:
		return ev.index(x)
	case *ast.StarExpr:
		p := ev.expr(x.X)
		if p.K == vAddr {
			return ev.readLV(p.LV)
		}
		if p.K == vType {
			return Value{K: vType, Typ: types.NewPointer(p.Typ)}
		}
		return ev.deref(p, x.Pos())
	case *ast.CompositeLit:
		return ev.compositeLit(x, false)
	case *ast.FuncLit:
		return Value{K: vFunc, Fn: x, FnUnit: ev.u, Typ: ev.typeOf(x), T: ev.u.litRef(x), S: SRef}
	case *ast.TypeAssertExpr:
		v := ev.expr(x.X)
		if x.Type == nil {
			return v
		}
		var t types.Type
		if ev.spec {
			t = ev.resolveType(x.Type)
		} else {
			t = ev.typeOf(x.Type)
		}
		ev.u.assumeNote("single-value type assertions are assumed to succeed (dynamic types are not modelled)")
		return ev.unbox(v, t)
	case *ast.SliceExpr:
		return ev.sliceExpr(x)
	case *ast.KeyValueExpr:
		return ev.errorf(x.Pos(), "unexpected key-value")
	case *ast.ArrayType, *ast.MapType, *ast.FuncType, *ast.InterfaceType, *ast.ChanType, *ast.StructType:
		if ev.spec {
			return Value{K: vType, Typ: ev.resolveType(x)}
		}
		return Value{K: vType, Typ: ev.typeOf(x)}
	case *ast.IndexListExpr:
		return ev.expr(x.X)
	}
	return ev.errorf(e.Pos(), "unsupported expression %T", e)
}

func (u *Unit) litRef(l *ast.FuncLit) string {
	name := quote(fmt.Sprintf("lit:%d", u.litOrd[l]))
	if !u.declared[name] {
		u.declare(name, SRef)
		u.axioms = append(u.axioms, app("not", app("=", name, "nil")))
	}
	return name
}

func (ev *Ev) basicLit(x *ast.BasicLit) Value {
	switch x.Kind {
	case token.INT:
		cv := constant.MakeFromLiteral(x.Value, x.Kind, 0)
		v := ev.u.constValue(cv, types.Typ[types.Int])
		v.Untyped = true
		return v
	case token.FLOAT:
		cv := constant.MakeFromLiteral(x.Value, x.Kind, 0)
		v := ev.u.realConst(cv, types.Typ[types.Float64])
		v.Untyped = true
		return v
	case token.STRING:
		s, _ := strconv.Unquote(x.Value)
		return scalar(ev.u.strLit(s), SRef, types.Typ[types.String])
	case token.CHAR:
		cv := constant.MakeFromLiteral(x.Value, x.Kind, 0)
		return ev.u.constValue(cv, types.Typ[types.Int32])
	}
	return ev.errorf(x.Pos(), "unsupported literal")
}

func (ev *Ev) deref(p Value, pos token.Pos) Value {
	if p.Typ == nil {
		return ev.errorf(pos, "deref of untyped value")
	}
	pt, ok := p.Typ.Underlying().(*types.Pointer)
	if !ok {
		return ev.errorf(pos, "deref of non-pointer")
	}
	el := pt.Elem()
	if _, ok := structOf(el); ok {
		return ev.u.build(el, "", func(path string, s Sort, lt types.Type) string {
			return ev.u.readField(ev.st, el, path, s, p.T)
		})
	}
	lv := &LValue{K: lvDeref, Ref: p.T, Typ: el}
	return ev.readLV(lv)
}

func (ev *Ev) unary(x *ast.UnaryExpr) Value {
	switch x.Op {
	case token.AND:
		if cl, ok := x.X.(*ast.CompositeLit); ok {
			return ev.compositeLit(cl, true)
		}
		lv := ev.lvalue(x.X)
		if lv == nil {
			return ev.errorf(x.Pos(), "cannot take address")
		}
		// &x.f: the address is a non-nil reference; for heap fields it is a function of the owning object
		av := Value{K: vAddr, LV: lv, Typ: ev.typeOf(x), S: SRef}
		if lv.K == lvHeap && lv.Ref != "" {
			f := ev.u.declareFun(quote("fieldaddr:"+lv.Prefix), []Sort{SRef}, SRef)
			av.T = app(f, lv.Ref)
		} else if lv.K == lvLocal && lv.Obj != nil {
			// &local: the variable escapes to the heap - a newly allocated object (not allocated before this activation
			// created it, allocated from now on), and the same address every time it is taken
			key := fmt.Sprintf("addrof:%s:%d", lv.Obj.Name(), lv.Obj.Pos())
			if prev, ok := ev.st.lets[key]; ok {
				av.T = prev.T
			} else {
				av.T = ev.u.allocRef(ev.st, "addr_"+lv.Obj.Name())
				ev.st.lets[key] = scalar(av.T, SRef, nil)
			}
		} else {
			av.T = ev.u.fresh("addr", SRef)
		}
		ev.st.assume(not(app("=", av.T, "nil")))
		return av
	case token.ARROW:
		return ev.chanRecv(x)
	}
	v := ev.expr(x.X)
	switch x.Op {
	case token.NOT:
		return boolV(not(v.T))
	case token.SUB:
		if v.S == SFP {
			return scalar(app("fp.neg", v.T), SFP, v.Typ)
		}
		r := scalar(app("-", v.T), v.S, v.Typ)
		r.Untyped = v.Untyped
		return r
	case token.ADD:
		return v
	case token.XOR:
		return scalar(app("-", app("-", v.T), "1"), SInt, v.Typ)
	}
	return ev.errorf(x.Pos(), "unsupported unary %s", x.Op)
}

func (ev *Ev) chanRecv(x *ast.UnaryExpr) Value {
	if ev.spec {
		return ev.errorf(x.Pos(), "channel receive in spec")
	}
	ch := ev.expr(x.X)
	ev.u.chanRecvEffect(ev.st, ch)
	t := ev.typeOf(x)
	if tup, ok := t.(*types.Tuple); ok {
		t = tup.At(0).Type()
	}
	return ev.u.freshValue(t, "recv", ev.st)
}

func (ev *Ev) coerceNum(a, b Value) (Value, Value) {
	if a.S == SInt && b.S == SReal && (a.Untyped || ev.spec) {
		a = scalar(toReal(a.T), SReal, b.Typ)
	} else if b.S == SInt && a.S == SReal && (b.Untyped || ev.spec) {
		b = scalar(toReal(b.T), SReal, a.Typ)
	} else if a.S == SReal && b.S == SFP {
		a = scalar(fmt.Sprintf("((_ to_fp 11 53) RNE %s)", a.T), SFP, b.Typ)
	} else if b.S == SReal && a.S == SFP {
		b = scalar(fmt.Sprintf("((_ to_fp 11 53) RNE %s)", b.T), SFP, a.Typ)
	} else if a.S == SInt && b.S == SFP {
		a = scalar(fmt.Sprintf("((_ to_fp 11 53) RNE %s)", toReal(a.T)), SFP, b.Typ)
	} else if b.S == SInt && a.S == SFP {
		b = scalar(fmt.Sprintf("((_ to_fp 11 53) RNE %s)", toReal(b.T)), SFP, a.Typ)
	}
	return a, b
}

func toReal(t string) string {
	if _, err := strconv.ParseInt(t, 10, 64); err == nil {
		return t + ".0"
	}
	return app("to_real", t)
}

func (ev *Ev) binary(x *ast.BinaryExpr) Value {
	switch x.Op {
	case token.LAND, token.LOR:
		a := ev.expr(x.X)
		// evaluate RHS under the path condition of the LHS (short-circuit)
		saved := len(ev.st.pc)
		if x.Op == token.LAND {
			ev.st.pc = append(ev.st.pc, a.T)
		} else {
			ev.st.pc = append(ev.st.pc, not(a.T))
		}
		mark := len(ev.st.pc)
		heapBefore := make(map[string]string, len(ev.st.heap))
		for k, v := range ev.st.heap {
			heapBefore[k] = v
		}
		b := ev.expr(x.Y)
		// any assumptions added while evaluating the RHS (e.g. callee ensures) are kept as implications
		extra := append([]string(nil), ev.st.pc[mark:]...)
		guard := ev.st.pc[saved]
		ev.st.pc = ev.st.pc[:saved]
		for _, h := range extra {
			ev.st.pc = append(ev.st.pc, implies(guard, h))
		}
		// state changes made by the RHS happen only when it is evaluated: otherwise every family keeps its version
		for _, k := range sortedKeys(ev.st.heap) {
			nv := ev.st.heap[k]
			ov, had := heapBefore[k]
			if had && ov == nv {
				continue
			}
			if !had {
				ev.u.eng.mu.Lock()
				srt, ok := ev.u.eng.famSorts[k]
				ev.u.eng.mu.Unlock()
				if !ok {
					continue
				}
				ov = ev.u.fam(&State{heap: map[string]string{}}, k, srt)
			}
			ev.st.pc = append(ev.st.pc, implies(not(guard), app("=", nv, ov)))
		}
		if x.Op == token.LAND {
			return boolV(and(a.T, b.T))
		}
		return boolV(or(a.T, b.T))
	}
	a := ev.expr(x.X)
	b := ev.expr(x.Y)
	return ev.binop(x.Op, a, b, x)
}

func (ev *Ev) binop(op token.Token, a, b Value, at ast.Expr) Value {
	pos := token.NoPos
	if at != nil {
		pos = at.Pos()
	}
	if (a.K == vSlice && b.K == vScalar && b.T == "nil") || (b.K == vSlice && a.K == vScalar && a.T == "nil") {
		sv := a
		if b.K == vSlice {
			sv = b
		}
		// s == nil: no backing array and no elements
		eq := and(app("=", sv.Comp["#arr"].T, "nil"), app("=", sv.Comp["#len"].T, "0"))
		if op == token.NEQ {
			return boolV(not(eq))
		}
		if op == token.EQL {
			return boolV(eq)
		}
	}
	if a.K == vStruct || b.K == vStruct || a.K == vSlice || b.K == vSlice {
		if op == token.EQL || op == token.NEQ {
			eq := ev.valuesEqual(a, b)
			if op == token.NEQ {
				return boolV(not(eq))
			}
			return boolV(eq)
		}
		return ev.errorf(pos, "unsupported operator %s on composite", op)
	}
	a, b = ev.coerceNum(a, b)
	// boxing for comparisons between interface and concrete
	if (op == token.EQL || op == token.NEQ) && a.S != b.S {
		if a.S == SRef {
			b = ev.box(b)
		} else if b.S == SRef {
			a = ev.box(a)
		}
	}
	typ := a.Typ
	if typ == nil || a.Untyped {
		typ = b.Typ
	}
	unt := a.Untyped && b.Untyped
	mk := func(t string, s Sort) Value {
		v := scalar(t, s, typ)
		v.Untyped = unt
		return v
	}
	if a.S == SFP {
		switch op {
		case token.EQL:
			return boolV(app("fp.eq", a.T, b.T))
		case token.NEQ:
			return boolV(not(app("fp.eq", a.T, b.T)))
		case token.LSS:
			return boolV(app("fp.lt", a.T, b.T))
		case token.LEQ:
			return boolV(app("fp.leq", a.T, b.T))
		case token.GTR:
			return boolV(app("fp.gt", a.T, b.T))
		case token.GEQ:
			return boolV(app("fp.geq", a.T, b.T))
		case token.ADD:
			return mk(app("fp.add", "RNE", a.T, b.T), SFP)
		case token.SUB:
			return mk(app("fp.sub", "RNE", a.T, b.T), SFP)
		case token.MUL:
			return mk(app("fp.mul", "RNE", a.T, b.T), SFP)
		case token.QUO:
			return mk(app("fp.div", "RNE", a.T, b.T), SFP)
		}
		return ev.errorf(pos, "unsupported fp operator %s", op)
	}
	switch op {
	case token.EQL:
		return boolV(app("=", a.T, b.T))
	case token.NEQ:
		return boolV(not(app("=", a.T, b.T)))
	case token.LSS, token.LEQ, token.GTR, token.GEQ:
		if a.S == SRef {
			// string comparison
			f := ev.u.declareFun("strless", []Sort{SRef, SRef}, SBool)
			switch op {
			case token.LSS:
				return boolV(app(f, a.T, b.T))
			case token.GTR:
				return boolV(app(f, b.T, a.T))
			case token.LEQ:
				return boolV(not(app(f, b.T, a.T)))
			default:
				return boolV(not(app(f, a.T, b.T)))
			}
		}
		return boolV(app(map[token.Token]string{token.LSS: "<", token.LEQ: "<=", token.GTR: ">", token.GEQ: ">="}[op], a.T, b.T))
	case token.ADD:
		if a.S == SRef {
			f := ev.u.declareFun("strcat", []Sort{SRef, SRef}, SRef)
			r := app(f, a.T, b.T)
			ev.st.assume(app("=", app("strlen", r), app("+", app("strlen", a.T), app("strlen", b.T))))
			ev.st.assume(not(app("=", r, "nil")))
			return scalar(r, SRef, typ)
		}
		return ev.arith(mk(app("+", a.T, b.T), a.S), pos)
	case token.SUB:
		return ev.arith(mk(app("-", a.T, b.T), a.S), pos)
	case token.MUL:
		return ev.arith(mk(app("*", a.T, b.T), a.S), pos)
	case token.QUO:
		if a.S == SReal {
			if !ev.spec {
				// float division by zero yields Inf/NaN in Go: not representable over the reals
				ev.u.emit(ev.st, "divzero@"+ev.u.exprOrd(at), not(app("=", b.T, "0.0")), "float division (real model needs a non-zero divisor)")
			}
			return mk(app("/", a.T, b.T), SReal)
		}
		if !ev.spec {
			ev.u.emit(ev.st, "divzero@"+ev.u.exprOrd(at), not(app("=", b.T, "0")), "integer division by zero")
		}
		return mk(app("goquo", a.T, b.T), SInt)
	case token.REM:
		if !ev.spec {
			ev.u.emit(ev.st, "divzero@"+ev.u.exprOrd(at), not(app("=", b.T, "0")), "integer modulo by zero")
		}
		return mk(app("gorem", a.T, b.T), SInt)
	case token.SHL:
		if n, err := strconv.Atoi(b.T); err == nil && n < 63 {
			return mk(app("*", a.T, fmt.Sprint(int64(1)<<uint(n))), SInt)
		}
		f := ev.u.declareFun("shl", []Sort{SInt, SInt}, SInt)
		return mk(app(f, a.T, b.T), SInt)
	case token.SHR:
		if n, err := strconv.Atoi(b.T); err == nil && n < 63 {
			return mk(app("div", a.T, fmt.Sprint(int64(1)<<uint(n))), SInt)
		}
		f := ev.u.declareFun("shr", []Sort{SInt, SInt}, SInt)
		return mk(app(f, a.T, b.T), SInt)
	case token.AND, token.OR, token.XOR, token.AND_NOT:
		if a.S == SBool {
			switch op {
			case token.AND:
				return boolV(and(a.T, b.T))
			case token.OR:
				return boolV(or(a.T, b.T))
			}
		}
		name := map[token.Token]string{token.AND: "bitand", token.OR: "bitor", token.XOR: "bitxor", token.AND_NOT: "bitandnot"}[op]
		f := ev.u.declareFun(name, []Sort{SInt, SInt}, SInt)
		return mk(app(f, a.T, b.T), SInt)
	}
	return ev.errorf(pos, "unsupported operator %s", op)
}

// arith adds overflow obligations for checked functions.
func (ev *Ev) arith(v Value, pos token.Pos) Value {
	if ev.spec || !ev.u.overflow || v.S != SInt || v.Typ == nil {
		return v
	}
	if lo, hi, ok := intRange(v.Typ); ok {
		ev.u.emit(ev.st, "overflow@"+fmt.Sprint(ev.u.oblCount["overflow"]), and(app(">=", v.T, lo), app("<=", v.T, hi)), "machine integer range")
		ev.u.oblCount["overflow"]++
	}
	return v
}

func (u *Unit) exprOrd(e ast.Expr) string {
	if e == nil {
		return "?"
	}
	s := exprString(e)
	if len(s) > 40 {
		s = s[:40]
	}
	return strings.ReplaceAll(s, " ", "")
}

func (ev *Ev) valuesEqual(a, b Value) string {
	var conj []string
	am := map[string]Value{}
	walkValue(a, "", func(p string, v Value) { am[p] = v })
	walkValue(b, "", func(p string, v Value) {
		if av, ok := am[p]; ok {
			conj = append(conj, app("=", av.T, v.T))
		}
	})
	return and(conj...)
}

func (ev *Ev) box(v Value) Value {
	switch v.S {
	case SInt:
		return scalar(app("box_int", v.T), SRef, v.Typ)
	case SBool:
		return scalar(app("box_bool", v.T), SRef, v.Typ)
	case SReal:
		return scalar(app("box_real", v.T), SRef, v.Typ)
	}
	if v.K == vStruct || v.K == vSlice {
		// boxed composite: injective uninterpreted constructor over the leaves is overkill; use a fresh ref
		b := ev.u.fresh("boxed", SRef)
		ev.st.assume(not(app("=", b, "nil"))) // an interface holding a struct or slice value is not nil
		if v.K == vStruct && v.Typ != nil {
			ev.st.assume(app("=", app(ev.u.dynTypeFn(), b), ev.u.dynTypeID(v.Typ))) // its dynamic type is the struct type
			tk := typeKey(v.Typ)
			walkValue(v, "", func(path string, l Value) {
				if l.K == vScalar && l.T != "" && (l.S == SInt || l.S == SBool || l.S == SRef || l.S == SReal) {
					fn := ev.u.declareFun(quote("unboxf:"+tk+"."+path+"/"+string(l.S)), []Sort{SRef}, l.S)
					ev.st.assume(app("=", app(fn, b), l.T))
				}
			})
		}
		if v.K == vSlice {
			// remember length and set view of a boxed slice
			ev.st.assume(app("=", app(ev.u.declareFun("boxlen", []Sort{SRef}, SInt), b), v.Comp["#len"].T))
			if sv, ok := v.Comp["#set"]; ok && sv.T != "" {
				ev.st.assume(app("=", app(ev.u.declareFun(quote("boxset:"+string(sv.S)), []Sort{SRef}, sv.S), b), sv.T))
			}
		}
		return scalar(b, SRef, v.Typ)
	}
	if v.K == vAddr {
		a := ev.u.fresh("addr", SRef)
		ev.st.assume(not(app("=", a, "nil")))
		return scalar(a, SRef, v.Typ)
	}
	return v
}

func (ev *Ev) unbox(v Value, t types.Type) Value {
	s := ev.u.sortOf(t)
	if v.K != vScalar || v.S != SRef {
		v.Typ = t
		return v
	}
	switch s {
	case SInt:
		return scalar(app("unbox_int", v.T), SInt, t)
	case SBool:
		return scalar(app("unbox_bool", v.T), SBool, t)
	case SReal:
		return scalar(app("unbox_real", v.T), SReal, t)
	case SRef:
		return scalar(v.T, SRef, t)
	}
	// composite from interface: fresh, except that a slice gets back the length and set view recorded when it was boxed
	fv := ev.u.freshValue(t, "unboxed", ev.st)
	if fv.K == vStruct {
		// the struct held by an interface value is a function of that value (same box, same fields)
		tk := typeKey(t)
		walkValue(fv, "", func(path string, l Value) {
			if l.K == vScalar && l.T != "" && (l.S == SInt || l.S == SBool || l.S == SRef || l.S == SReal) {
				fn := ev.u.declareFun(quote("unboxf:"+tk+"."+path+"/"+string(l.S)), []Sort{SRef}, l.S)
				ev.st.assume(app("=", l.T, app(fn, v.T)))
			}
		})
	}
	if fv.K == vSlice {
		ev.st.assume(implies(not(app("=", v.T, "nil")), app("=", app(ev.u.declareFun("boxlen", []Sort{SRef}, SInt), v.T), fv.Comp["#len"].T)))
		if sv, ok := fv.Comp["#set"]; ok && sv.T != "" {
			ev.st.assume(implies(not(app("=", v.T, "nil")), app("=", app(ev.u.declareFun(quote("boxset:"+string(sv.S)), []Sort{SRef}, sv.S), v.T), sv.T)))
		}
	}
	return fv
}

// coerce converts v for storage into a location/parameter of type t (implicit interface conversion).
func (ev *Ev) coerce(v Value, t types.Type) Value {
	if t == nil {
		return v
	}
	if v.K == vScalar && v.T == "nil" {
		if _, isSlice := t.Underlying().(*types.Slice); isSlice {
			return ev.u.zero(t) // nil slice: no backing array, length 0, empty set view
		}
	}
	s := ev.u.sortOf(t)
	if s == SRef && (v.K == vStruct || v.K == vSlice || (v.K == vScalar && v.S != SRef)) {
		if _, isIface := t.Underlying().(*types.Interface); isIface {
			b := ev.box(v)
			b.Typ = t
			return b
		}
		if _, isTP := t.(*types.TypeParam); isTP {
			b := ev.box(v)
			b.Typ = t
			return b
		}
	}
	if v.K == vScalar {
		if s == SReal && v.S == SInt {
			return scalar(toReal(v.T), SReal, t)
		}
		if s != "" && v.S == s {
			v.Typ = t
		}
	}
	if v.K == vAddr && s == SRef {
		// pointer to a field escaping into a Ref-typed slot
		return v
	}
	return v
}

// ---- selectors and lvalues ----

func fieldPath(t types.Type, name string, pkg *types.Package) (idx []int, obj types.Object, indirect bool) {
	obj, idx, indirect = types.LookupFieldOrMethod(t, true, pkg, name)
	return
}

func (ev *Ev) ctxTypesPkg() *types.Package {
	if ev.pkg != nil {
		return ev.pkg.Types
	}
	if ev.u.pkg != nil {
		return ev.u.pkg.Types
	}
	return nil
}

func (ev *Ev) selector(x *ast.SelectorExpr) Value {
	// package-qualified
	if id, ok := x.X.(*ast.Ident); ok {
		if !ev.spec {
			if pn, ok := ev.info().Uses[id].(*types.PkgName); ok {
				obj := pn.Imported().Scope().Lookup(x.Sel.Name)
				if obj == nil {
					return ev.errorf(x.Pos(), "unknown %s.%s", id.Name, x.Sel.Name)
				}
				return ev.object(obj, x)
			}
		} else if _, bound := ev.binds[id.Name]; !bound {
			if _, isLet := ev.st.lets[id.Name]; !isLet {
				isVar := false
				if ev.pkg != nil {
					var obj types.Object
					if ev.scopePos.IsValid() {
						if sc := ev.pkg.Types.Scope().Innermost(ev.scopePos); sc != nil {
							_, obj = sc.LookupParent(id.Name, ev.scopePos)
						}
					}
					if obj == nil {
						obj = ev.pkg.Types.Scope().Lookup(id.Name)
					}
					if obj != nil {
						if _, isPkg := obj.(*types.PkgName); !isPkg {
							isVar = true
						}
					}
				}
				if _, isGhost := ev.u.eng.cs.Ghosts[id.Name]; isGhost {
					isVar = true
				}
				if !isVar {
					if p := ev.lookupPkg(id.Name); p != nil {
						obj := p.Scope().Lookup(x.Sel.Name)
						if obj == nil {
							return ev.errorf(x.Pos(), "unknown %s.%s", id.Name, x.Sel.Name)
						}
						return ev.object(obj, x)
					}
				}
			}
		}
	}
	base := ev.expr(x.X)
	return ev.selectFrom(base, x.Sel.Name, x)
}

func (ev *Ev) selectFrom(base Value, name string, at ast.Expr) Value {
	pos := token.NoPos
	if at != nil {
		pos = at.Pos()
	}
	if base.K == vPkg {
		obj := base.Pkg.Scope().Lookup(name)
		if obj == nil {
			return ev.errorf(pos, "unknown %s.%s", base.Pkg.Name(), name)
		}
		return ev.object(obj, at)
	}
	if base.K == vAddr {
		// (&x).f
		inner := ev.readLV(base.LV)
		return ev.selectFrom(inner, name, at)
	}
	if base.Typ == nil {
		return ev.errorf(pos, "selector .%s on untyped value", name)
	}
	if base.K == vType {
		// method expression T.m
		obj, _, _ := types.LookupFieldOrMethod(base.Typ, true, ev.ctxTypesPkg(), name)
		if obj != nil {
			return Value{K: vMethod, Obj: obj, Typ: obj.Type()}
		}
		return ev.errorf(pos, "unknown method expression")
	}
	idx, obj, _ := fieldPath(base.Typ, name, ev.ctxTypesPkg())
	if obj == nil {
		return ev.errorf(pos, "no field or method %s on %s", name, base.Typ)
	}
	if fn, ok := obj.(*types.Func); ok {
		// method value: walk embedded path to the receiver
		recv := base
		for _, i := range idx[:len(idx)-1] {
			recv = ev.stepField(recv, i, pos)
		}
		// as a value (x.m passed around) a bound method is a non-nil function reference; approximated by the method's own reference
		return Value{K: vMethod, Obj: fn, Typ: fn.Type(), Recv: &recv, T: ev.u.funcRef(fn), S: SRef}
	}
	cur := base
	for _, i := range idx {
		cur = ev.stepField(cur, i, pos)
	}
	return cur
}

// stepField selects field i of a struct value or of the struct a pointer refers to.
func (ev *Ev) stepField(cur Value, i int, pos token.Pos) Value {
	t := cur.Typ
	if t == nil {
		return ev.errorf(pos, "field of untyped value")
	}
	if pt, ok := t.Underlying().(*types.Pointer); ok {
		el := pt.Elem()
		st, ok := structOf(el)
		if !ok {
			return ev.errorf(pos, "field of pointer to non-struct")
		}
		f := st.Field(i)
		if !ev.spec {
			ev.nilCheck(cur, pos)
		}
		fv := ev.u.build(f.Type(), f.Name()+".", func(path string, s Sort, lt types.Type) string {
			return ev.u.readField(ev.st, el, path, s, cur.T)
		})
		if !ev.spec && (fv.K == vSlice || fv.K == vStruct) && !strings.Contains(cur.T, "$") {
			walkValue(fv, "", func(path string, l Value) {
				if strings.HasSuffix(path, "#len") {
					ev.st.assume(app(">=", l.T, "0"))
				}
			})
		}
		if !strings.Contains(cur.T, "$") {
			ev.wellFormedRead(fv)
		}
		return fv
	}
	st, ok := structOf(t)
	if !ok {
		return ev.errorf(pos, "field of non-struct %s", t)
	}
	f := st.Field(i)
	if cur.K == vStruct {
		if v, ok := cur.Comp[f.Name()]; ok {
			return v
		}
		return ev.u.zero(f.Type())
	}
	return ev.errorf(pos, "field selection on %v", cur.K)
}

func (ev *Ev) nilCheck(p Value, pos token.Pos) {
	// nil dereference obligations are only generated when the unit asks for them
	if ev.u.c != nil && ev.u.c.Flags["nilcheck"] {
		ev.u.emit(ev.st, "nil@"+fmt.Sprint(ev.u.oblCount["nilx"]), not(app("=", p.T, "nil")), "nil dereference")
		ev.u.oblCount["nilx"]++
	}
}

// lvalue resolves an addressable expression.
func (ev *Ev) lvalue(e ast.Expr) *LValue {
	switch x := e.(type) {
	case *ast.ParenExpr:
		return ev.lvalue(x.X)
	case *ast.Ident:
		if x.Name == "_" {
			return &LValue{K: lvBlank}
		}
		if ev.spec {
			if g, ok := ev.u.eng.cs.Ghosts[x.Name]; ok {
				gv := ev.ghostVar(g)
				return &LValue{K: lvGhost, Name: g.Name, Typ: gv.Typ}
			}
			if _, ok := ev.st.lets[x.Name]; ok {
				return &LValue{K: lvGhost, Name: "let:" + x.Name}
			}
			v := ev.ident(x)
			if v.Obj != nil {
				return nil
			}
			// resolve to object
			if ev.pkg != nil && ev.scopePos.IsValid() {
				if sc := ev.pkg.Types.Scope().Innermost(ev.scopePos); sc != nil {
					if _, obj := sc.LookupParent(x.Name, ev.scopePos); obj != nil {
						if vo, ok := obj.(*types.Var); ok {
							return &LValue{K: lvLocal, Obj: vo, Typ: vo.Type()}
						}
					}
				}
			}
			return nil
		}
		obj := ev.info().ObjectOf(x)
		vo, ok := obj.(*types.Var)
		if !ok {
			return nil
		}
		if vo.Parent() != nil && vo.Pkg() != nil && vo.Parent() == vo.Pkg().Scope() {
			return &LValue{K: lvGlobal, Obj: vo, Typ: vo.Type()}
		}
		return &LValue{K: lvLocal, Obj: vo, Typ: vo.Type()}
	case *ast.SelectorExpr:
		// package-level var?
		if id, ok := x.X.(*ast.Ident); ok && !ev.spec {
			if pn, ok := ev.info().Uses[id].(*types.PkgName); ok {
				obj := pn.Imported().Scope().Lookup(x.Sel.Name)
				if vo, ok := obj.(*types.Var); ok {
					return &LValue{K: lvGlobal, Obj: vo, Typ: vo.Type()}
				}
				return nil
			}
		}
		var baseT types.Type
		var baseLV *LValue
		var baseV Value
		hasV := false
		if !ev.spec {
			baseT = ev.typeOf(x.X)
		}
		if baseT == nil {
			baseV = ev.expr(x.X)
			hasV = true
			baseT = baseV.Typ
		}
		if baseT == nil {
			return nil
		}
		idx, obj, _ := fieldPath(baseT, x.Sel.Name, ev.ctxTypesPkg())
		if obj == nil {
			return nil
		}
		if _, isVar := obj.(*types.Var); !isVar {
			return nil
		}
		// start
		curT := baseT
		var cur *LValue
		if _, isPtr := baseT.Underlying().(*types.Pointer); isPtr {
			if !hasV {
				baseV = ev.expr(x.X)
			}
			cur = nil
		} else {
			baseLV = ev.lvalue(x.X)
			if baseLV == nil {
				return nil
			}
			cur = baseLV
		}
		ptrV := baseV
		for _, i := range idx {
			if pt, ok := curT.Underlying().(*types.Pointer); ok && cur == nil && ptrV.K == vAddr && ptrV.LV != nil {
				// (&x).f where x is an lvalue of this activation: the location is x's own field
				cur = ptrV.LV
				curT = pt.Elem()
			}
			if pt, ok := curT.Underlying().(*types.Pointer); ok {
				// deref: location is heap struct field
				var ref string
				if cur == nil {
					ref = ptrV.T
				} else {
					ref = ev.readLV(cur).T
				}
				el := pt.Elem()
				st, ok := structOf(el)
				if !ok {
					return nil
				}
				f := st.Field(i)
				cur = &LValue{K: lvHeap, Root: typeKey(el), Prefix: f.Name(), Ref: ref, Typ: f.Type()}
				cur.MapTyp = nil
				cur.ElemKey = ""
				cur.Obj = nil
				cur.rootT = el
				curT = f.Type()
				continue
			}
			st, ok := structOf(curT)
			if !ok {
				return nil
			}
			f := st.Field(i)
			cur = cur.field(f.Name(), f.Type())
			curT = f.Type()
		}
		return cur
	case *ast.IndexExpr:
		var bt types.Type
		base := ev.expr(x.X)
		bt = base.Typ
		if bt == nil {
			// ghost map
			if ev.spec {
				blv := ev.lvalue(x.X)
				if blv != nil && blv.K == lvGhost {
					idx := ev.expr(x.Index)
					n := *blv
					n.Idxs = append(append([]Value(nil), blv.Idxs...), idx)
					return &n
				}
			}
			return nil
		}
		if ev.spec {
			// ghost var indexed
			if blv := ev.ghostLV(x.X); blv != nil {
				idx := ev.expr(x.Index)
				n := *blv
				n.Idxs = append(append([]Value(nil), blv.Idxs...), idx)
				return &n
			}
		}
		switch ut := bt.Underlying().(type) {
		case *types.Slice:
			idx := ev.expr(x.Index)
			if !ev.spec {
				ev.boundsCheck(idx, base.Comp["#len"].T, x)
			}
			return &LValue{K: lvElem, Ref: base.Comp["#arr"].T, Idx: idx.T, Typ: ut.Elem(), ElemKey: typeKey(ut.Elem())}
		case *types.Array:
			idx := ev.expr(x.Index)
			if !ev.spec {
				ev.boundsCheck(idx, fmt.Sprint(ut.Len()), x) // the length of an array is part of its type
			}
			return &LValue{K: lvElem, Ref: base.Comp["#arr"].T, Idx: idx.T, Typ: ut.Elem(), ElemKey: typeKey(ut.Elem())}
		case *types.Map:
			idx := ev.mapKey(ev.expr(x.Index), ut.Key())
			return &LValue{K: lvMapElem, Ref: base.T, Idx: idx.T, IdxS: idx.S, Typ: ut.Elem(), MapTyp: ut, ElemKey: typeKey(bt.Underlying())}
		case *types.Pointer:
			// pointer to array
			return nil
		}
		return nil
	case *ast.StarExpr:
		p := ev.expr(x.X)
		if p.K == vAddr {
			return p.LV
		}
		if p.Typ == nil {
			return nil
		}
		pt, ok := p.Typ.Underlying().(*types.Pointer)
		if !ok {
			return nil
		}
		if _, isStruct := structOf(pt.Elem()); isStruct {
			return &LValue{K: lvHeap, Root: typeKey(pt.Elem()), rootT: pt.Elem(), Prefix: "", Ref: p.T, Typ: pt.Elem(), whole: true}
		}
		return &LValue{K: lvDeref, Ref: p.T, Typ: pt.Elem()}
	}
	return nil
}

func (ev *Ev) ghostLV(e ast.Expr) *LValue {
	switch x := e.(type) {
	case *ast.Ident:
		if _, bound := ev.binds[x.Name]; bound {
			return nil
		}
		if g, ok := ev.u.eng.cs.Ghosts[x.Name]; ok {
			gv := ev.ghostVar(g)
			return &LValue{K: lvGhost, Name: g.Name, Typ: gv.Typ}
		}
	case *ast.IndexExpr:
		if b := ev.ghostLV(x.X); b != nil {
			idx := ev.expr(x.Index)
			n := *b
			n.Idxs = append(append([]Value(nil), b.Idxs...), idx)
			return &n
		}
	}
	return nil
}

func (lv *LValue) field(name string, t types.Type) *LValue {
	n := *lv
	switch lv.K {
	case lvLocal, lvGlobal:
		n.Path = append(append([]string(nil), lv.Path...), name)
	case lvHeap:
		if lv.whole {
			n.Prefix = name
			n.whole = false
		} else {
			n.Prefix = lv.Prefix + "." + name
		}
	case lvElem, lvMapElem, lvDeref:
		n.Path = append(append([]string(nil), lv.Path...), name)
	}
	n.Typ = t
	return &n
}

func (ev *Ev) boundsCheck(idx Value, length string, at ast.Expr) {
	ev.u.emit(ev.st, "bounds@"+ev.u.exprOrd(at), and(app("<=", "0", idx.T), app("<", idx.T, length)), "index in range")
}

func (ev *Ev) elemFam(elemKey, leafPath string, s Sort) (string, Sort) {
	key := "E:" + elemKey
	if leafPath != "" {
		key += "." + leafPath
	}
	as := arraySort(SRef, arraySort(SInt, s))
	ev.u.famSort(key, as)
	return key, as
}

func (ev *Ev) mapFams(m *types.Map, leafPath string, s Sort) (dom, val, card string, ds, vs Sort) {
	mk := typeKey(m)
	ks := ev.u.sortOf(m.Key())
	if ks == "" {
		ks = SRef
	}
	dom = "MD:" + mk
	val = "MV:" + mk
	if leafPath != "" {
		val += "." + leafPath
	}
	card = "MC:" + mk
	ds = arraySort(SRef, arraySort(ks, SBool))
	vs = arraySort(SRef, arraySort(ks, s))
	ev.u.famSort(dom, ds)
	ev.u.famSort(val, vs)
	ev.u.famSort(card, arraySort(SRef, SInt))
	return
}

func joinPath(a []string, b string) string {
	p := strings.Join(a, ".")
	if p != "" && b != "" {
		return p + "." + b
	}
	return p + b
}

// readLV reads the value at an lvalue (slice lengths read from memory are non-negative).
func (ev *Ev) readLV(lv *LValue) Value {
	v := ev.readLV0(lv)
	if !ev.spec && (v.K == vSlice || v.K == vStruct) {
		walkValue(v, "", func(path string, l Value) {
			if strings.HasSuffix(path, "#len") && !strings.Contains(l.T, "$") {
				ev.st.assume(app(">=", l.T, "0"))
			}
		})
	}
	if lv.K != lvLocal && lv.K != lvBlank {
		ev.wellFormedRead(v)
	}
	return v
}

// wellFormedRead: a pointer, map or channel read from memory is nil or allocated (well-formed heap).
func (ev *Ev) wellFormedRead(v Value) {
	if ev.spec {
		return
	}
	as := arraySort(SRef, SBool)
	walkValue(v, "", func(path string, l Value) {
		if l.S != SRef || l.K != vScalar || l.T == "nil" || strings.Contains(l.T, "$") {
			return
		}
		if strings.HasSuffix(path, "#arr") {
			// backing array of a slice read from memory
			ev.u.famSort("alloc", as)
			ev.st.assume(or(app("=", l.T, "nil"), app("select", ev.u.fam(ev.st, "alloc", as), l.T)))
			return
		}
		if l.Typ == nil {
			return
		}
		switch l.Typ.Underlying().(type) {
		case *types.Pointer, *types.Map, *types.Chan:
			ev.u.famSort("alloc", as)
			ev.st.assume(or(app("=", l.T, "nil"), app("select", ev.u.fam(ev.st, "alloc", as), l.T)))
		}
	})
}

func (ev *Ev) readLV0(lv *LValue) Value {
	u := ev.u
	switch lv.K {
	case lvBlank:
		return scalar("nil", SRef, nil)
	case lvLocal:
		v, ok := ev.st.env[lv.Obj]
		if !ok {
			v = u.captured(ev.st, lv.Obj.(*types.Var))
		}
		for _, p := range lv.Path {
			v = v.Comp[p]
		}
		return v
	case lvGlobal:
		v := ev.global(lv.Obj.(*types.Var))
		for _, p := range lv.Path {
			v = v.Comp[p]
		}
		return v
	case lvHeap:
		pre := lv.Prefix
		if pre != "" {
			pre += "."
		}
		return u.build(lv.Typ, pre, func(path string, s Sort, lt types.Type) string {
			return u.readField(ev.st, lv.rootT, path, s, lv.Ref)
		})
	case lvElem:
		pre := strings.Join(lv.Path, ".")
		if pre != "" {
			pre += "."
		}
		ref, idx := u.resolveView(lv.Ref, lv.Idx)
		return u.build(lv.Typ, pre, func(path string, s Sort, lt types.Type) string {
			key, as := ev.elemFam(lv.ElemKey, path, s)
			return app("select", app("select", u.fam(ev.st, key, as), ref), idx)
		})
	case lvMapElem:
		pre := strings.Join(lv.Path, ".")
		if pre != "" {
			pre += "."
		}
		return u.build(lv.Typ, pre, func(path string, s Sort, lt types.Type) string {
			dom, val, _, ds, vs := ev.mapFams(lv.MapTyp, path, s)
			indom := app("select", app("select", u.fam(ev.st, dom, ds), lv.Ref), lv.Idx)
			return app("ite", indom, app("select", app("select", u.fam(ev.st, val, vs), lv.Ref), lv.Idx), u.zeroOf(s))
		})
	case lvDeref:
		pre := strings.Join(lv.Path, ".")
		if pre != "" {
			pre += "."
		}
		return u.build(lv.Typ, pre, func(path string, s Sort, lt types.Type) string {
			key := "P:" + typeKey(lv.Typ)
			if path != "" {
				key += "." + path
			}
			as := arraySort(SRef, s)
			u.famSort(key, as)
			return app("select", u.fam(ev.st, key, as), lv.Ref)
		})
	case lvGhost:
		if strings.HasPrefix(lv.Name, "let:") {
			return ev.st.lets[lv.Name[4:]]
		}
		g := u.eng.cs.Ghosts[lv.Name]
		v := ev.ghostVar(g)
		for _, ix := range lv.Idxs {
			v = ev.ghostSelect(v, ix)
		}
		return v
	}
	return ev.errorf(token.NoPos, "unreadable lvalue")
}

func (ev *Ev) ghostSelect(v Value, ix Value) Value {
	ks, vs, ok := v.S.isArray()
	if !ok {
		return ev.errorf(token.NoPos, "indexing non-array ghost value")
	}
	ixv := ix
	if ks == SRef && ix.S != SRef {
		ixv = ev.box(ix)
	}
	if ks == SReal && ix.S == SInt {
		ixv = scalar(toReal(ix.T), SReal, nil)
	}
	var et types.Type
	if v.Typ != nil {
		if m, ok := v.Typ.Underlying().(*types.Map); ok {
			et = m.Elem()
		}
	}
	return Value{K: vScalar, T: app("select", v.T, ixv.T), S: vs, Typ: et}
}

// assignLV writes v to the lvalue.
func (ev *Ev) assignLV(lv *LValue, v Value) {
	u := ev.u
	if lv == nil {
		return
	}
	v = ev.coerce(v, lv.Typ)
	switch lv.K {
	case lvBlank:
	case lvLocal:
		if len(lv.Path) == 0 {
			ev.st.env[lv.Obj] = v
			return
		}
		cur, ok := ev.st.env[lv.Obj]
		if !ok {
			cur = u.captured(ev.st, lv.Obj.(*types.Var))
		}
		ev.st.env[lv.Obj] = setPath(cur, lv.Path, v)
	case lvGlobal:
		key := "V:" + lv.Obj.Pkg().Name() + "." + lv.Obj.Name()
		if len(lv.Path) > 0 {
			key += "." + strings.Join(lv.Path, ".")
		}
		walkValue(v, "", func(path string, l Value) {
			k := key
			if path != "" {
				k += "." + path
			}
			u.famSort(k, l.S)
			u.setFam(ev.st, k, l.S, l.T)
		})
	case lvHeap:
		pre := lv.Prefix
		walkValue(v, "", func(path string, l Value) {
			p := pre
			if path != "" {
				if p != "" {
					p += "."
				}
				p += path
			}
			if ev.guardedCheck != nil {
				ev.guardedCheck(lv, p)
			}
			if !ev.spec && !u.allocd[lv.Ref] {
				u.checkTypeInvWrite(ev, lv.rootT, token.NoPos)
			}
			u.writeField(ev.st, lv.rootT, p, l.S, lv.Ref, l.T)
		})
	case lvElem:
		pre := strings.Join(lv.Path, ".")
		ref, idx := u.resolveView(lv.Ref, lv.Idx)
		walkValue(v, "", func(path string, l Value) {
			p := joinPath(lv.Path, path)
			_ = pre
			key, as := ev.elemFam(lv.ElemKey, p, l.S)
			cur := u.fam(ev.st, key, as)
			u.setFam(ev.st, key, as, app("store", cur, ref, app("store", app("select", cur, ref), idx, l.T)))
		})
	case lvMapElem:
		first := true
		if len(lv.Path) == 0 {
			nLeaves := 0
			walkValue(v, "", func(string, Value) { nLeaves++ })
			if nLeaves == 0 {
				// element type without data (struct{}): only the key set changes
				dom, _, card, ds, _ := ev.mapFams(lv.MapTyp, "", SRef)
				dcur := u.fam(ev.st, dom, ds)
				ccur := u.fam(ev.st, card, arraySort(SRef, SInt))
				indom := app("select", app("select", dcur, lv.Ref), lv.Idx)
				u.setFam(ev.st, card, arraySort(SRef, SInt), app("store", ccur, lv.Ref, app("ite", indom, app("select", ccur, lv.Ref), app("+", app("select", ccur, lv.Ref), "1"))))
				u.setFam(ev.st, dom, ds, app("store", dcur, lv.Ref, app("store", app("select", dcur, lv.Ref), lv.Idx, "true")))
			}
		}
		walkValue(v, "", func(path string, l Value) {
			p := joinPath(lv.Path, path)
			dom, val, card, ds, vs := ev.mapFams(lv.MapTyp, p, l.S)
			if first && len(lv.Path) == 0 {
				first = false
				dcur := u.fam(ev.st, dom, ds)
				ccur := u.fam(ev.st, card, arraySort(SRef, SInt))
				indom := app("select", app("select", dcur, lv.Ref), lv.Idx)
				u.setFam(ev.st, card, arraySort(SRef, SInt), app("store", ccur, lv.Ref, app("ite", indom, app("select", ccur, lv.Ref), app("+", app("select", ccur, lv.Ref), "1"))))
				u.setFam(ev.st, dom, ds, app("store", dcur, lv.Ref, app("store", app("select", dcur, lv.Ref), lv.Idx, "true")))
			}
			vcur := u.fam(ev.st, val, vs)
			u.setFam(ev.st, val, vs, app("store", vcur, lv.Ref, app("store", app("select", vcur, lv.Ref), lv.Idx, l.T)))
		})
	case lvDeref:
		walkValue(v, "", func(path string, l Value) {
			p := joinPath(lv.Path, path)
			key := "P:" + typeKey(lv.Typ)
			if p != "" {
				key += "." + p
			}
			as := arraySort(SRef, l.S)
			u.famSort(key, as)
			u.setFam(ev.st, key, as, app("store", u.fam(ev.st, key, as), lv.Ref, l.T))
		})
	case lvGhost:
		if strings.HasPrefix(lv.Name, "let:") {
			ev.st.lets[lv.Name[4:]] = v
			return
		}
		g := u.eng.cs.Ghosts[lv.Name]
		gv := ev.ghostVar(g)
		key := "G:" + g.Name
		if len(lv.Idxs) == 0 {
			if gv.S == SReal && v.S == SInt {
				v = scalar(toReal(v.T), SReal, nil)
			}
			u.setFam(ev.st, key, gv.S, v.T)
			return
		}
		u.setFam(ev.st, key, gv.S, ev.ghostStore(gv, lv.Idxs, v))
	}
}

func (ev *Ev) ghostStore(arr Value, idxs []Value, v Value) string {
	ks, vs, ok := arr.S.isArray()
	if !ok {
		ev.errorf(token.NoPos, "ghost store into non-array")
		return arr.T
	}
	ix := idxs[0]
	if ks == SRef && ix.S != SRef {
		ix = ev.box(ix)
	}
	if len(idxs) == 1 {
		val := v
		if vs == SRef && v.S != SRef {
			val = ev.box(v)
		}
		if vs == SReal && v.S == SInt {
			val = scalar(toReal(v.T), SReal, nil)
		}
		return app("store", arr.T, ix.T, val.T)
	}
	inner := Value{K: vScalar, T: app("select", arr.T, ix.T), S: vs}
	return app("store", arr.T, ix.T, ev.ghostStore(inner, idxs[1:], v))
}

func setPath(cur Value, path []string, v Value) Value {
	if len(path) == 0 {
		return v
	}
	n := cur
	n.Comp = map[string]Value{}
	for k, x := range cur.Comp {
		n.Comp[k] = x
	}
	n.Comp[path[0]] = setPath(cur.Comp[path[0]], path[1:], v)
	return n
}

// ---- index, slices ----

func (ev *Ev) index(x *ast.IndexExpr) Value {
	// generic function instantiation f[T]
	if !ev.spec {
		if tv, ok := ev.info().Types[x.Index]; ok && tv.IsType() {
			return ev.expr(x.X)
		}
	}
	if ev.spec {
		if lv := ev.ghostLV(x); lv != nil {
			return ev.readLV(lv)
		}
	}
	base := ev.expr(x.X)
	if base.Typ == nil {
		if _, _, ok := base.S.isArray(); ok {
			return ev.ghostSelect(base, ev.expr(x.Index))
		}
		return ev.errorf(x.Pos(), "index on untyped value")
	}
	if _, _, ok := base.S.isArray(); ok && base.K == vScalar {
		return ev.ghostSelect(base, ev.expr(x.Index))
	}
	switch ut := base.Typ.Underlying().(type) {
	case *types.Slice, *types.Array, *types.Map:
		var lv *LValue
		switch ut := ut.(type) {
		case *types.Slice:
			idx := ev.expr(x.Index)
			if !ev.spec {
				ev.boundsCheck(idx, base.Comp["#len"].T, x)
			}
			lv = &LValue{K: lvElem, Ref: base.Comp["#arr"].T, Idx: idx.T, Typ: ut.Elem(), ElemKey: typeKey(ut.Elem())}
				if sv, ok := base.Comp["#set"]; ok && sv.T != "" {
					rv := ev.readLV(lv)
					if rv.K == vScalar {
						ev.st.assume(implies(and(app("<=", "0", idx.T), app("<", idx.T, base.Comp["#len"].T)), app("select", sv.T, rv.T)))
					}
				}
		case *types.Array:
			idx := ev.expr(x.Index)
			if !ev.spec {
				ev.boundsCheck(idx, fmt.Sprint(ut.Len()), x) // the length of an array is part of its type
			}
			lv = &LValue{K: lvElem, Ref: base.Comp["#arr"].T, Idx: idx.T, Typ: ut.Elem(), ElemKey: typeKey(ut.Elem())}
		case *types.Map:
			idx := ev.mapKey(ev.expr(x.Index), ut.Key())
			lv = &LValue{K: lvMapElem, Ref: base.T, Idx: idx.T, IdxS: idx.S, Typ: ut.Elem(), MapTyp: ut, ElemKey: typeKey(ut)}
		}
		rv := ev.readLV(lv)
		if _, isSl := ut.(*types.Slice); isSl && !ev.spec && rv.K == vScalar && rv.S == SInt {
			ev.u.typeFacts(ev.st, rv) // an element of an integer slice holds a value of its type (e.g. a byte is >= 0)
		}
		return rv
	case *types.Basic:
		if ut.Info()&types.IsString != 0 {
			idx := ev.expr(x.Index)
			if !ev.spec {
				ev.boundsCheck(idx, app("strlen", base.T), x)
			}
			f := ev.u.declareFun("strat", []Sort{SRef, SInt}, SInt)
			r := app(f, base.T, idx.T)
			ev.st.assume(and(app("<=", "0", r), app("<=", r, "255")))
			return scalar(r, SInt, types.Typ[types.Uint8])
		}
	case *types.Pointer:
		if at, ok := ut.Elem().Underlying().(*types.Array); ok {
			_ = at
		}
	}
	return ev.errorf(x.Pos(), "unsupported index base %s", base.Typ)
}

func (ev *Ev) sliceExpr(x *ast.SliceExpr) Value {
	base := ev.expr(x.X)
	u := ev.u
	if base.Typ == nil {
		return ev.errorf(x.Pos(), "slice of untyped")
	}
	lo := "0"
	if x.Low != nil {
		lo = ev.expr(x.Low).T
	}
	if b, ok := base.Typ.Underlying().(*types.Basic); ok && b.Info()&types.IsString != 0 {
		hi := app("strlen", base.T)
		if x.High != nil {
			hi = ev.expr(x.High).T
		}
		if !ev.spec {
			u.emit(ev.st, "bounds@"+u.exprOrd(x), and(app("<=", "0", lo), app("<=", lo, hi), app("<=", hi, app("strlen", base.T))), "string slice bounds")
		}
		f := u.declareFun("substr", []Sort{SRef, SInt, SInt}, SRef)
		r := app(f, base.T, lo, hi)
		ev.st.assume(app("=", app("strlen", r), app("-", hi, lo)))
		ev.st.assume(not(app("=", r, "nil")))
		// s[0:len(s)] == s
		ev.st.assume(implies(and(app("=", lo, "0"), app("=", hi, app("strlen", base.T))), app("=", r, base.T)))
		return scalar(r, SRef, base.Typ)
	}
	var elemT types.Type
	switch ut := base.Typ.Underlying().(type) {
	case *types.Slice:
		elemT = ut.Elem()
	case *types.Array:
		elemT = ut.Elem()
	default:
		return ev.errorf(x.Pos(), "unsupported slice base")
	}
	length := base.Comp["#len"].T
	hi := length
	if x.High != nil {
		hi = ev.expr(x.High).T
	}
	if !ev.spec {
		// upper bound is checked against len (cap is not modelled: s[:n] with len < n <= cap is outside the subset)
		u.emit(ev.st, "bounds@"+u.exprOrd(x), and(app("<=", "0", lo), app("<=", lo, hi), app("<=", hi, length)), "slice bounds (against len; cap not modelled)")
	}
	res := Value{K: vSlice, Typ: types.NewSlice(elemT), Comp: map[string]Value{}}
	if sl, ok := base.Typ.(*types.Named); ok {
		if _, isS := sl.Underlying().(*types.Slice); isS {
			res.Typ = base.Typ
		}
	}
	res.Comp["#len"] = intV(app("-", hi, lo))
	if ss := u.setSortOf(elemT); ss != "" {
		if hi == "0" {
			res = u.withSet(res, u.emptySet(ss))
		} else {
			ns := u.fresh("set", ss)
			ks, _, _ := ss.isArray()
			ev.st.assume(fmt.Sprintf("(forall ((x %s)) (! (=> (select %s x) (select %s x)) :pattern ((select %s x))))", ks, ns, u.setOf(base), ns))
			ev.st.assume(implies(and(app("=", lo, "0"), app("=", hi, length)), app("=", ns, u.setOf(base))))
			res = u.withSet(res, ns)
		}
	}
	if lo == "0" {
		res.Comp["#arr"] = base.Comp["#arr"]
		if x.High != nil && !ev.spec {
			// s[:k]: same backing array, shorter length - appending to it writes into the array s still refers to
			if u.cuts == nil {
				u.cuts = map[string]bool{}
			}
			u.cuts[res.Comp["#arr"].T+"|"+res.Comp["#len"].T] = true
		}
		return res
	}
	// s[a:b] with a > 0: a view of the same backing array; element reads, writes and copy() through the view are redirected
	// to the base at index + a (the view's own array name is never read)
	arr := u.fresh("subarr", SRef)
	res.Comp["#arr"] = scalar(arr, SRef, nil)
	ev.st.assume(implies(not(app("=", base.Comp["#arr"].T, "nil")), not(app("=", arr, "nil"))))
	if u.views == nil {
		u.views = map[string]viewInfo{}
	}
	u.views[arr] = viewInfo{base: base.Comp["#arr"].T, lo: lo}
	return res
}

type viewInfo struct{ base, lo string }

// isCut: the slice value is a re-sliced view (s[i:j], or s[:k] as produced by a slice expression of this unit).
func (u *Unit) isCut(s Value) bool {
	if s.K != vSlice {
		return false
	}
	if _, ok := u.views[s.Comp["#arr"].T]; ok {
		return true
	}
	return u.cuts[s.Comp["#arr"].T+"|"+s.Comp["#len"].T]
}

// resolveView maps (array, index) through re-slicing views to the underlying array.
func (u *Unit) resolveView(ref, idx string) (string, string) {
	for i := 0; i < 16; i++ {
		v, ok := u.views[ref]
		if !ok {
			break
		}
		ref = v.base
		idx = app("+", idx, v.lo)
	}
	return ref, idx
}

// ---- composite literals ----

func (ev *Ev) compositeLit(x *ast.CompositeLit, addr bool) Value {
	var t types.Type
	if ev.spec {
		if x.Type == nil {
			return ev.errorf(x.Pos(), "untyped composite literal in spec")
		}
		t = ev.resolveType(x.Type)
	} else {
		t = ev.typeOf(x)
	}
	if t == nil {
		return ev.errorf(x.Pos(), "composite literal without type")
	}
	if pt, ok := t.Underlying().(*types.Pointer); ok && x.Type == nil {
		// elided &T in slice of pointers
		t = pt.Elem()
		addr = true
	}
	u := ev.u
	var v Value
	switch ut := t.Underlying().(type) {
	case *types.Struct:
		v = u.zero(t)
		v.Comp = copyComp(v.Comp)
		for i, el := range x.Elts {
			if kv, ok := el.(*ast.KeyValueExpr); ok {
				name := kv.Key.(*ast.Ident).Name
				var ft types.Type
				for j := 0; j < ut.NumFields(); j++ {
					if ut.Field(j).Name() == name {
						ft = ut.Field(j).Type()
					}
				}
				v.Comp[name] = ev.coerce(ev.exprWithType(kv.Value, ft), ft)
			} else {
				f := ut.Field(i)
				v.Comp[f.Name()] = ev.coerce(ev.exprWithType(el, f.Type()), f.Type())
			}
		}
	case *types.Slice, *types.Array:
		var elemT types.Type
		if s, ok := ut.(*types.Slice); ok {
			elemT = s.Elem()
		} else {
			elemT = ut.(*types.Array).Elem()
		}
		arr := u.allocRef(ev.st, "arr")
		n := 0
		var litElems []string
		for _, el := range x.Elts {
			val := el
			if kv, ok := el.(*ast.KeyValueExpr); ok {
				val = kv.Value
			}
			evv := ev.coerce(ev.exprWithType(val, elemT), elemT)
			if evv.K == vScalar {
				litElems = append(litElems, evv.T)
			}
			ev.assignLV(&LValue{K: lvElem, Ref: arr, Idx: fmt.Sprint(n), Typ: elemT, ElemKey: typeKey(elemT)}, evv)
			n++
		}
		ln := fmt.Sprint(n)
		if a, ok := ut.(*types.Array); ok {
			ln = fmt.Sprint(a.Len())
		}
		v = Value{K: vSlice, Typ: t, Comp: map[string]Value{"#arr": scalar(arr, SRef, nil), "#len": intV(ln)}}
		if ss := u.setSortOf(elemT); ss != "" {
			set := u.emptySet(ss)
			for _, ev0 := range litElems {
				set = app("store", set, ev0, "true")
			}
			v = u.withSet(v, set)
		}
	case *types.Map:
		m := u.allocRef(ev.st, "map")
		ev.initEmptyMap(ut, m)
		for _, el := range x.Elts {
			kv := el.(*ast.KeyValueExpr)
			k := ev.mapKey(ev.expr(kv.Key), ut.Key())
			ev.assignLV(&LValue{K: lvMapElem, Ref: m, Idx: k.T, IdxS: k.S, Typ: ut.Elem(), MapTyp: ut, ElemKey: typeKey(ut)}, ev.exprWithType(kv.Value, ut.Elem()))
		}
		v = scalar(m, SRef, t)
	default:
		return ev.errorf(x.Pos(), "unsupported composite literal type %s", t)
	}
	if addr {
		ref := u.allocRef(ev.st, "new")
		walkValue(v, "", func(path string, l Value) {
			u.writeField(ev.st, t, path, l.S, ref, l.T)
		})
		u.zeroWaitGroups(ev.st, t, ref)
		u.checkTypeInvAlloc(ev, t, ref)
		u.allocT[ref] = t
		ev.st.assume(app("=", app(u.dynTypeFn(), ref), u.dynTypeID(types.NewPointer(t))))
		return scalar(ref, SRef, types.NewPointer(t))
	}
	return v
}

func (ev *Ev) exprWithType(e ast.Expr, t types.Type) Value {
	if cl, ok := e.(*ast.CompositeLit); ok && cl.Type == nil && !ev.spec {
		return ev.compositeLit(cl, false)
	}
	return ev.expr(e)
}

func copyComp(m map[string]Value) map[string]Value {
	n := map[string]Value{}
	for k, v := range m {
		n[k] = v
	}
	return n
}

func (ev *Ev) initEmptyMap(m *types.Map, ref string) {
	u := ev.u
	ks := u.sortOf(m.Key())
	if ks == "" {
		ks = SRef
	}
	dom, _, card, ds, _ := ev.mapFams(m, "", SRef)
	dcur := u.fam(ev.st, dom, ds)
	u.setFam(ev.st, dom, ds, app("store", dcur, ref, fmt.Sprintf("((as const (Array %s Bool)) false)", ks)))
	ccur := u.fam(ev.st, card, arraySort(SRef, SInt))
	u.setFam(ev.st, card, arraySort(SRef, SInt), app("store", ccur, ref, "0"))
}

// allocRef returns a fresh non-nil reference distinct from every allocated one.
func (u *Unit) allocRef(st *State, name string) string {
	r := u.fresh(name, SRef)
	as := arraySort(SRef, SBool)
	u.famSort("alloc", as)
	cur := u.fam(st, "alloc", as)
	st.assume(not(app("=", r, "nil")))
	st.assume(not(app("select", cur, r)))
	u.setFam(st, "alloc", as, app("store", cur, r, "true"))
	u.allocd[r] = true
	return r
}

func (u *Unit) assumeAllocated(st *State, v Value) {
	as := arraySort(SRef, SBool)
	u.famSort("alloc", as)
	walkValue(v, "", func(path string, l Value) {
		if l.S == SRef && l.K == vScalar && l.T != "nil" {
			st.assume(or(app("=", l.T, "nil"), app("select", u.fam(st, "alloc", as), l.T)))
		}
	})
}

// mapKey converts a map key to the scalar used to index the map's arrays: scalars as they are, struct keys through an
// injective constructor over their fields (Go compares struct keys field by field).
func (ev *Ev) mapKey(v Value, kt types.Type) Value {
	v = ev.coerce(v, kt)
	if v.K == vScalar {
		return v
	}
	if v.K == vStruct {
		var sorts []Sort
		var ts []string
		walkValue(v, "", func(path string, l Value) {
			sorts = append(sorts, l.S)
			ts = append(ts, l.T)
		})
		name := quote("mkkey:" + typeKey(kt))
		f := ev.u.declareFun(name, sorts, SRef)
		key := "mkkeyax:" + typeKey(kt)
		if !ev.u.declared[key] && len(sorts) > 0 {
			ev.u.declared[key] = true
			// injectivity
			var d1, d2, a1, a2, eqs []string
			for i, s := range sorts {
				d1 = append(d1, fmt.Sprintf("(a%d %s)", i, s))
				d2 = append(d2, fmt.Sprintf("(b%d %s)", i, s))
				a1 = append(a1, fmt.Sprintf("a%d", i))
				a2 = append(a2, fmt.Sprintf("b%d", i))
				eqs = append(eqs, fmt.Sprintf("(= a%d b%d)", i, i))
			}
			ev.u.axioms = append(ev.u.axioms, fmt.Sprintf("(forall (%s %s) (! (=> (= (%s %s) (%s %s)) %s) :pattern ((%s %s) (%s %s))))",
				strings.Join(d1, " "), strings.Join(d2, " "), name, strings.Join(a1, " "), name, strings.Join(a2, " "), and(eqs...), name, strings.Join(a1, " "), name, strings.Join(a2, " ")))
		}
		return scalar(app(f, ts...), SRef, kt)
	}
	return scalar(ev.u.fresh("key", SRef), SRef, kt)
}
