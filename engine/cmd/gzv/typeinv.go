package main

import (
	"fmt"
	"go/token"
	"go/types"
	"strings"
)

// Object invariants ("typeinv (b *T): expr"): the invariant of every allocated T holds whenever no method of T is running.
// Methodology (sequential, no re-entrancy): fields of T are written only inside methods of T (anything else is the
// obligation typeinv_write), every method of T re-establishes the invariant of its receiver at exit (typeinv@exit) and
// changes no other T (its modifies clause), fresh objects satisfy it at allocation (typeinv@alloc). In return the invariant
// may be assumed for all allocated objects at entry and after every call or havoc.

func typeInvKey(t types.Type) string {
	if p, ok := t.Underlying().(*types.Pointer); ok {
		t = p.Elem()
	}
	n, ok := t.(*types.Named)
	if !ok || n.Obj().Pkg() == nil {
		return ""
	}
	return n.Obj().Pkg().Path() + "." + n.Obj().Name()
}

func (u *Unit) namedByKey(key string) types.Type {
	i := strings.LastIndex(key, ".")
	if i < 0 {
		return nil
	}
	p := u.eng.pkgs[key[:i]]
	if p == nil || p.Types == nil {
		return nil
	}
	if o := p.Types.Scope().Lookup(key[i+1:]); o != nil {
		return o.Type()
	}
	return nil
}

// typeInvTerm evaluates the invariant for the object denoted by ref in state st.
func (u *Unit) typeInvTerm(st *State, ti *TypeInv, t types.Type, ref string) string {
	sev := &Ev{u: u, st: st, old: st, spec: true, binds: map[string]Value{}, pkg: u.eng.pkgs[ti.PkgPath], where: "typeinv " + ti.TypeName}
	sev.binds[ti.Recv] = scalar(ref, SRef, types.NewPointer(t))
	var cs []string
	saved := len(st.pc)
	for _, c := range ti.Invs {
		if c.Expr != nil {
			cs = append(cs, sev.expr(c.Expr).T)
		}
	}
	st.pc = st.pc[:saved]
	return and(cs...)
}

// assumeTypeInvs assumes every object invariant for all allocated objects in the current state.
func (u *Unit) assumeTypeInvs(st *State) {
	for _, key := range sortedKeys(u.eng.cs.TypeInvs) {
		ti := u.eng.cs.TypeInvs[key]
		t := u.namedByKey(key)
		if t == nil {
			continue
		}
		if u.pkg != nil && u.pkg.Types != nil && !reachesPkg(u.pkg.Types, ti.PkgPath, map[string]bool{}) {
			continue // the unit's package cannot even name the type
		}
		if u.selfInvKey == key {
			// inside a method of T the receiver's invariant may be broken temporarily; assumed at entry only
			continue
		}
		u.nfresh++
		x := fmt.Sprintf("o$%d", u.nfresh)
		as := arraySort(SRef, SBool)
		u.famSort("alloc", as)
		body := u.typeInvTerm(st, ti, t, x)
		st.assume(fmt.Sprintf("(forall ((%s Ref)) (=> (select %s %s) %s))", x, u.fam(st, "alloc", as), x, body))
		u.eng.noteMeta(u, "object invariant of "+shortKey(key)+" assumed for all allocated objects (established by its own methods, checked there)")
	}
}

func (u *Unit) checkTypeInvWrite(ev *Ev, root types.Type, pos token.Pos) {
	key := typeInvKey(root)
	if key == "" || u.eng.cs.TypeInvs[key] == nil || u.selfInvKey == key {
		return
	}
	u.emit(ev.st, "typeinv_write@"+shortKey(key), "false", "field of a type with an object invariant written outside the type's methods")
}

func (u *Unit) checkTypeInvAlloc(ev *Ev, t types.Type, ref string) {
	key := typeInvKey(t)
	if key == "" || u.eng.cs.TypeInvs[key] == nil || ev.spec {
		return
	}
	u.emit(ev.st, "typeinv@alloc "+shortKey(key), u.typeInvTerm(ev.st, u.eng.cs.TypeInvs[key], u.namedByKey(key), ref), "a freshly allocated object satisfies its object invariant")
}

func reachesPkg(p *types.Package, path string, seen map[string]bool) bool {
	if p.Path() == path {
		return true
	}
	if seen[p.Path()] {
		return false
	}
	seen[p.Path()] = true
	for _, imp := range p.Imports() {
		if reachesPkg(imp, path, seen) {
			return true
		}
	}
	return false
}
