package hash

import "testing"

// F14 (known finding, C15): nodes whose virtual-node names coincide share ring slots and the mapping becomes history dependent.
func TestReplayF14(t *testing.T) {
	a := NewConsistentHash()
	a.Add("1")
	a.AddWithWeight("10.0.0.1", 0)
	a.Add("10.0.0.11")
	a.Remove("10.0.0.1") // deletes ring keys of 10.0.0.11: "10.0.0.1"+"10".."19" == "10.0.0.11"+"0".."9"
	b := NewConsistentHash()
	b.Add("1")
	b.Add("10.0.0.11")
	va, _ := a.Get("key-8")
	vb, _ := b.Get("key-8")
	if va != vb {
		t.Errorf("same members {1, 10.0.0.11}, different answers for key-8: %v vs %v", va, vb)
	}
}
