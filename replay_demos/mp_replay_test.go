package mapping

import (
	"math"
	"testing"
)

func TestReplayF3(t *testing.T) {
	type T struct {
		A int `json:"a,optional=b,range=[1:5]"`
		B int `json:"b,optional"`
	}
	var v T
	err := UnmarshalJsonBytes([]byte(`{"a":100,"b":1}`), &v)
	if err == nil {
		t.Errorf("accepted out of range a=%d", v.A)
	}
	var w T
	if err := UnmarshalJsonBytes([]byte(`{"a":3,"b":1}`), &w); err != nil || w.A != 3 {
		t.Errorf("rejected valid: %v", err)
	}
}

func TestReplayF4(t *testing.T) {
	type T struct {
		F float64 `form:"f,range=[1:5]"`
	}
	var v T
	u := NewUnmarshaler("form", WithStringValues())
	err := u.Unmarshal(map[string]any{"f": "NaN"}, &v)
	if err == nil {
		t.Errorf("accepted NaN: %v", v.F)
	}
	if validateNumberRange(math.NaN(), &numberRange{left: 1, right: 5, leftInclude: true, rightInclude: true}) == nil {
		t.Errorf("validateNumberRange accepts NaN")
	}
}
