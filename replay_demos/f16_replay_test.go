package executors

// Replay of finding F16 (C11): two producers. Producer A is paused between the two statements of Add
// (`pe.commander <- vals` and `<-pe.confirmChan`); producer B's real Add then receives the confirmation that was meant for
// A, returns while B's own batch still sits in the commander buffer (not yet registered with the wait group), and B's real
// Wait returns before B's task has been executed.
import (
	"os"
	"strings"
	"sync/atomic"
	"testing"
	"time"
)

// producerRegisters reports whether Add registers its batch with the wait group itself, before the hand-over (the repaired
// protocol), so that the emulated first half of producer A's Add below executes the statements the source has.
func f16ProducerRegisters(t *testing.T) bool {
	src, err := os.ReadFile("periodicalexecutor.go")
	if err != nil {
		t.Fatal(err)
	}
	body := string(src)
	i := strings.Index(body, "func (pe *PeriodicalExecutor) Add(")
	j := strings.Index(body[i:], "pe.commander <- vals")
	if i < 0 || j < 0 {
		t.Fatal("Add has an unexpected shape")
	}
	return strings.Contains(body[i:i+j], "pe.enterExecution()")
}

type f16Container struct {
	tasks []any
	exec  func(tasks any)
}

func (c *f16Container) AddTask(task any) bool { c.tasks = append(c.tasks, task); return true } // threshold 1
func (c *f16Container) Execute(tasks any)     { c.exec(tasks) }
func (c *f16Container) RemoveAll() any        { t := c.tasks; c.tasks = nil; return t }

func TestGzvReplayF16(t *testing.T) {
	gateA := make(chan struct{})
	gateB := make(chan struct{})
	var doneB int32
	c := &f16Container{}
	c.exec = func(tasks any) {
		for _, x := range tasks.([]any) {
			switch x.(string) {
			case "A":
				<-gateA
			case "B":
				<-gateB
				atomic.StoreInt32(&doneB, 1)
			}
		}
	}
	pe := NewPeriodicalExecutor(time.Hour, c)
	// producer A, first statement of Add (the real addAndCheck and the real send)
	vals, ok := pe.addAndCheck("A")
	if !ok {
		t.Fatal("threshold not reached")
	}
	if f16ProducerRegisters(t) {
		pe.enterExecution()
	}
	pe.commander <- vals
	// ... A is descheduled here, before `<-pe.confirmChan`.
	// wait until the flusher has taken A's batch (inflight back to 0) - it then registers it and offers the confirmation
	for i := 0; atomic.LoadInt32(&pe.inflight) != 0; i++ {
		if i > 5000 {
			t.Fatal("flusher did not take A's batch")
		}
		time.Sleep(time.Millisecond)
	}
	// producer B: the real Add, then the real Wait
	waitReturned := make(chan struct{})
	go func() {
		pe.Add("B")
		pe.Wait()
		close(waitReturned)
	}()
	// B's Wait can only return after A's batch is done (that one is registered): let A's batch finish
	time.Sleep(50 * time.Millisecond)
	close(gateA)
	select {
	case <-waitReturned:
		if atomic.LoadInt32(&doneB) == 0 {
			t.Errorf("GZV-REPRODUCED periodical executor, two producers (A paused inside Add between the hand-over and the confirmation): B's Add took A's confirmation; B's Wait returned although B's own task has not been executed (its callback has not returned)")
		}
	case <-time.After(2 * time.Second):
		// B's Wait is still waiting for B's task: the property holds on this schedule
	}
	close(gateB)
	// let A finish its Add so that nothing is left blocked
	go func() { <-pe.confirmChan }()
	time.Sleep(50 * time.Millisecond)
}
