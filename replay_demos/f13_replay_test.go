package codec

import "testing"

func TestF13(t *testing.T) {
	key := []byte("q4t7w!z%C*F-JaNdRgUjXn2r5u8x/A?D")
	enc, err := EcbEncrypt(key, []byte{})
	t.Logf("enc len=%d err=%v", len(enc), err)
	dec, err := EcbDecrypt(key, enc)
	t.Logf("dec=%v err=%v", dec, err)
	func() {
		defer func() { t.Logf("recovered: %v", recover()) }()
		d, e := EcbDecrypt(key, []byte{})
		t.Logf("empty: %v %v", d, e)
	}()
	s, e := EcbDecryptBase64("q4t7w!z%C*F-JaNdRgUjXn2r5u8x/A?D", "\n")
	t.Logf("b64 newline: %q %v", s, e)
}
