package internal

import "testing"

type recL struct{ m map[string]string }

func (r *recL) OnAdd(kv KV)    { r.m[kv.Key] = kv.Val }
func (r *recL) OnDelete(kv KV) { delete(r.m, kv.Key) }

func TestReplayF5b(t *testing.T) {
	add, remove := calculateChanges(map[string]string{"k": "v1", "j": "x"}, map[string]string{"k": "v2"})
	r := &recL{m: map[string]string{"k": "v1", "j": "x"}}
	for _, kv := range add {
		r.OnAdd(kv)
	}
	for _, kv := range remove {
		r.OnDelete(kv)
	}
	if len(r.m) != 1 || r.m["k"] != "v2" {
		t.Errorf("view after reload: %v (add %v remove %v)", r.m, add, remove)
	}
}
