package limit

import (
	"testing"
	"time"

	"github.com/zeromicro/go-zero/core/stores/redis/redistest"
)

func TestReplayF6(t *testing.T) {
	store := redistest.CreateRedis(t)
	l1 := NewTokenLimiter(10, 4, store, "tokenlimit")
	l2 := NewTokenLimiter(10, 4, store, "tokenlimit")
	now := time.Now()
	granted := 0
	for i := 0; i < 10; i++ {
		if l1.AllowN(now, 1) {
			granted++
		}
		if l2.AllowN(now, 1) {
			granted++
		}
	}
	if granted > 4 {
		t.Errorf("granted %d at one instant with burst 4 (alive1=%d alive2=%d)", granted, l1.redisAlive, l2.redisAlive)
	}
}
