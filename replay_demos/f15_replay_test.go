package mapping

import (
	"encoding/json"
	"testing"
)

// F15 (known finding, C17): an all-null array is decoded differently from encoding/json.
func TestReplayF15(t *testing.T) {
	type plain struct {
		PInts []*int `json:"pints"`
	}
	var a, b plain
	in := []byte(`{"pints":[null,null]}`)
	if err := UnmarshalJsonBytes(in, &a); err != nil {
		t.Fatal(err)
	}
	if err := json.Unmarshal(in, &b); err != nil {
		t.Fatal(err)
	}
	if len(a.PInts) != len(b.PInts) {
		t.Errorf("mapping: len %d, encoding/json: len %d", len(a.PInts), len(b.PInts))
	}
}
