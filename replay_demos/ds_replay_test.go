package discov

import (
	"sort"
	"testing"

	"github.com/zeromicro/go-zero/core/discov/internal"
)

func TestReplayF5(t *testing.T) {
	c := newContainer(false)
	c.OnAdd(internal.KV{Key: "k", Val: "v1"})
	c.OnAdd(internal.KV{Key: "k", Val: "v2"})
	vs := c.getValues()
	sort.Strings(vs)
	if len(vs) != 1 || vs[0] != "v2" {
		t.Errorf("after update: %v", vs)
	}
	c.OnDelete(internal.KV{Key: "k", Val: "v2"})
	if vs := c.getValues(); len(vs) != 0 {
		t.Errorf("after delete: %v", vs)
	}
}
