package collection

import "testing"

func TestQueueZero(t *testing.T) {
	q := NewQueue(0)
	q.Put(1)
	v, ok := q.Take()
	if !ok || v != 1 {
		t.Fatal(v, ok)
	}
}
