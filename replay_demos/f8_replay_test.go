package cache

import (
	"errors"
	"testing"

	"github.com/zeromicro/go-zero/core/stores/redis/redistest"
	"github.com/zeromicro/go-zero/core/syncx"
)

// F8: the public SetWithExpire with expire <= 0 writes a key without TTL (persistent).
func TestReplayF8(t *testing.T) {
	store := redistest.CreateRedis(t)
	cn := NewNode(store, syncx.NewSingleFlight(), NewStat("any"), errors.New("nf"))
	if err := cn.SetWithExpire("k", "v", 0); err != nil {
		t.Fatal(err)
	}
	ttl, err := store.Ttl("k")
	if err != nil {
		t.Fatal(err)
	}
	ok, _ := store.Exists("k")
	if ok && ttl <= 0 {
		t.Errorf("persistent key written: exists=%v ttl=%d", ok, ttl)
	}
}
