package handler

import (
	"net/http"
	"net/http/httptest"
	"os"
	"testing"
	"time"

	"github.com/zeromicro/go-zero/core/codec"
)

func replayDecrypters(t *testing.T) map[string]codec.RsaDecrypter {
	keyFile, err := createTempFile(priKey)
	if err != nil {
		t.Fatal(err)
	}
	t.Cleanup(func() { os.Remove(keyFile) })
	d, err := codec.NewRsaDecrypter(keyFile)
	if err != nil {
		t.Fatal(err)
	}
	return map[string]codec.RsaDecrypter{fingerprint: d}
}

// F9: strict content security, no signature header at all: POST is refused, PATCH/HEAD/OPTIONS reach the handler.
func TestReplayF9(t *testing.T) {
	for _, m := range []string{http.MethodPost, http.MethodPatch, http.MethodHead, http.MethodOptions} {
		ran := false
		h := ContentSecurityHandler(replayDecrypters(t), time.Hour, true)(http.HandlerFunc(func(w http.ResponseWriter, r *http.Request) { ran = true }))
		rec := httptest.NewRecorder()
		h.ServeHTTP(rec, httptest.NewRequest(m, "http://localhost/a/b", http.NoBody))
		if ran {
			t.Errorf("%s: protected handler ran without any signature (status %d)", m, rec.Code)
		}
	}
}

// F11: the signature covers the path in X-Request-Uri, not the path actually requested.
func TestReplayF11(t *testing.T) {
	req, err := buildRequest(requestSettings{method: http.MethodGet, url: "http://localhost/admin/delete-everything?x=1", strict: true,
		requestUri: "http://localhost/public/ping?y=2", timestamp: time.Now().Unix(), fingerprint: fingerprint})
	if err != nil {
		t.Fatal(err)
	}
	ran := ""
	h := ContentSecurityHandler(replayDecrypters(t), time.Hour, true)(http.HandlerFunc(func(w http.ResponseWriter, r *http.Request) { ran = r.URL.Path }))
	rec := httptest.NewRecorder()
	h.ServeHTTP(rec, req)
	if ran != "" {
		t.Errorf("handler for %s ran although the signature covers /public/ping (status %d)", ran, rec.Code)
	}
}
