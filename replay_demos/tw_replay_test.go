package collection

import (
	"container/list"
	"testing"
	"time"
)

func newBareWheel(n int) *TimingWheel {
	tw := &TimingWheel{interval: time.Second, numSlots: n, slots: make([]*list.List, n), timers: NewSafeMap(), tickedPos: n - 1,
		execute: func(k, v any) {}}
	tw.initSlots()
	return tw
}

// returns tick (1-based, after the move) at which key fires, -1 if never within limit
func fireTick(tw *TimingWheel, key any, limit int) int {
	for t := 1; t <= limit; t++ {
		tw.tickedPos = (tw.tickedPos + 1) % tw.numSlots
		l := tw.slots[tw.tickedPos]
		// replicate scanAndRunTasks firing detection: check timers before/after
		_, before := tw.timers.Get(key)
		tw.scanAndRunTasks(l)
		_, after := tw.timers.Get(key)
		if before && !after {
			return t
		}
	}
	return -1
}

func TestReplayMove(t *testing.T) {
	bad := 0
	for n := 1; n <= 7; n++ {
		for p := 0; p < n; p++ {
			for s := 1; s <= 3*n+1; s++ {
				for m := 1; m <= 3*n+1; m++ {
					for pre := 0; pre < s && pre < 4; pre++ {
						tw := newBareWheel(n)
						tw.tickedPos = p
						tw.setTask(&timingEntry{baseEntry: baseEntry{delay: time.Duration(s) * time.Second, key: "k"}, value: 1})
						if pre > 0 {
							if ft := fireTick(tw, "k", pre); ft != -1 {
								t.Fatalf("fired early n=%d p=%d s=%d pre=%d at %d", n, p, s, pre, ft)
							}
						}
						tw.moveTask(baseEntry{delay: time.Duration(m) * time.Second, key: "k"})
						got := fireTick(tw, "k", 5*n+10)
						if got != m {
							bad++
							if bad < 10 {
								t.Errorf("n=%d p=%d set=%d pre=%d move=%d fired at %d", n, p, s, pre, m, got)
							}
						}
					}
				}
			}
		}
	}
	t.Logf("bad=%d", bad)
}

func TestReplayDrain(t *testing.T) {
	tw := newBareWheel(10)
	tw.setTask(&timingEntry{baseEntry: baseEntry{delay: 3 * time.Second, key: "k"}, value: 1})
	tw.drainAll(func(k, v any) {})
	tw.setTask(&timingEntry{baseEntry: baseEntry{delay: 5 * time.Second, key: "k"}, value: 2})
	if got := fireTick(tw, "k", 40); got != 5 {
		t.Errorf("after drain fired at %d", got)
	}
}
