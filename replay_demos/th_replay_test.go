package handler

import (
	"net/http"
	"net/http/httptest"
	"testing"
	"time"
)

func TestReplayF7(t *testing.T) {
	h := TimeoutHandler(50 * time.Millisecond)(http.HandlerFunc(func(w http.ResponseWriter, r *http.Request) {
		w.Write([]byte("partial-"))
		time.Sleep(150 * time.Millisecond)
		if f, ok := w.(http.Flusher); ok {
			f.Flush()
		}
	}))
	req := httptest.NewRequest(http.MethodGet, "http://localhost", http.NoBody)
	resp := httptest.NewRecorder()
	h.ServeHTTP(resp, req)
	time.Sleep(200 * time.Millisecond)
	if resp.Code != http.StatusServiceUnavailable || resp.Body.String() != "Request Timeout" && resp.Body.String() != "" {
		t.Errorf("code=%d body=%q", resp.Code, resp.Body.String())
	}
}
