#!/usr/bin/env python3
# validates MANIFEST.json and every evidence file against the schemas (python3-vt has jsonschema)
import json, sys, glob, jsonschema
m = json.load(open('/verif/MANIFEST.json'))
jsonschema.validate(m, json.load(open('/root/.vp/MANIFEST.schema.json')))
props = [json.loads(l)['id'] for l in open('/verif/properties.jsonl')]
claimed = [c['property_id'] for c in m['checks']]
na = [n['property_id'] for n in m.get('not_applicable', [])]
assert sorted(claimed + na) == sorted(props), (sorted(claimed + na), props)
es = json.load(open('/root/.vp/EVIDENCE.schema.json'))
for f in glob.glob('/verif/evidence/*.json'):
    jsonschema.validate(json.load(open(f)), es)
print('manifest ok; claimed', claimed, '; evidence files ok:', len(glob.glob('/verif/evidence/*.json')))
