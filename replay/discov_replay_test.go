package discov

// gzv replay driver for the discovery container (C13). Injected with `go test -overlay`; never part of /repo.
// Oracle = the property statement: after any sequence of put/delete events the published values are exactly the values
// of the keys currently registered (exclusive mode: a value taken over by a new key drops the old key), each once.

import (
	"fmt"
	"math/rand"
	"sort"
	"testing"

	"github.com/zeromicro/go-zero/core/discov/internal"
)

func TestGzvReplayDiscov(t *testing.T) {
	keys := []string{"k1", "k2", "k3", "k4"}
	vals := []string{"a:1", "b:2", "c:3"}
	for _, exclusive := range []bool{false, true} {
		for seed := int64(0); seed < 400; seed++ {
			rnd := rand.New(rand.NewSource(seed))
			c := newContainer(exclusive)
			reg := map[string]string{}
			var ops []string
			for i := 0; i < 25; i++ {
				k := keys[rnd.Intn(len(keys))]
				if rnd.Intn(3) < 2 {
					v := vals[rnd.Intn(len(vals))]
					c.OnAdd(internal.KV{Key: k, Val: v})
					ops = append(ops, "put "+k+"="+v)
					if exclusive {
						for k2, v2 := range reg {
							if v2 == v && k2 != k {
								delete(reg, k2)
							}
						}
					}
					reg[k] = v
				} else {
					c.OnDelete(internal.KV{Key: k})
					ops = append(ops, "del "+k)
					delete(reg, k)
				}
				want := map[string]bool{}
				for _, v := range reg {
					want[v] = true
				}
				var ws []string
				for v := range want {
					ws = append(ws, v)
				}
				sort.Strings(ws)
				got := append([]string(nil), c.getValues()...)
				sort.Strings(got)
				if fmt.Sprint(got) != fmt.Sprint(ws) {
					t.Errorf("GZV-REPRODUCED discovery container exclusive=%v events=%v: published values %v, live registrations %v give %v", exclusive, ops, got, reg, ws)
					return
				}
			}
		}
	}
	// reload: applying calculateChanges(old, new) to a view equal to old yields new
	for seed := int64(0); seed < 300; seed++ {
		rnd := rand.New(rand.NewSource(seed))
		mk := func() map[string]string {
			m := map[string]string{}
			for _, k := range keys {
				if rnd.Intn(2) == 0 {
					m[k] = vals[rnd.Intn(len(vals))]
				}
			}
			return m
		}
		oldM, newM := mk(), mk()
		c := newContainer(false)
		for k, v := range oldM {
			c.OnAdd(internal.KV{Key: k, Val: v})
		}
		add, remove := internal.GzvCalculateChanges(oldM, newM)
		for _, kv := range add {
			c.OnAdd(kv)
		}
		for _, kv := range remove {
			c.OnDelete(kv)
		}
		want := map[string]bool{}
		for _, v := range newM {
			want[v] = true
		}
		var ws []string
		for v := range want {
			ws = append(ws, v)
		}
		sort.Strings(ws)
		got := append([]string(nil), c.getValues()...)
		sort.Strings(got)
		if fmt.Sprint(got) != fmt.Sprint(ws) {
			t.Errorf("GZV-REPRODUCED discovery reload old=%v new=%v (add %v, remove %v): published values %v, expected %v", oldM, newM, add, remove, got, ws)
			return
		}
	}
}
