package cache

// gzv replay driver for the cache-aside store (C06). Injected with `go test -overlay`; never part of /repo.
// Oracle = the property statement: a read returns the database row (or not-found) as of the last committed write, a miss
// loads once and caches with a finite TTL of at least one second (jitter within 5 %), a missing row is remembered by a
// placeholder with a finite TTL, a database error is returned and never cached, a store error other than a miss is returned
// without querying the database, a write invalidates only after it succeeded.
// The real cacheNode runs against miniredis; store time is moved with FastForward.

import (
	"errors"
	"fmt"
	"math/rand"
	"testing"
	"time"

	"github.com/alicebob/miniredis/v2"
	"github.com/zeromicro/go-zero/core/logx"
	"github.com/zeromicro/go-zero/core/stores/redis"
	"github.com/zeromicro/go-zero/core/syncx"
)

func TestGzvReplayCache(t *testing.T) {
	logx.Disable()
	errNotFound := errors.New("row not found")
	errDB := errors.New("db down")
	for _, cfg := range []struct{ expiry, nfExpiry time.Duration }{
		{time.Hour, time.Minute}, {10 * time.Second, time.Second}, {time.Second, 900 * time.Millisecond}, {1500 * time.Millisecond, 500 * time.Millisecond},
	} {
		for seed := int64(0); seed < 6; seed++ {
			s, err := miniredis.Run()
			if err != nil {
				t.Fatalf("miniredis: %v", err)
			}
			c := NewNode(redis.New(s.Addr()), syncx.NewSingleFlight(), NewStat("gzv"), errNotFound, WithExpiry(cfg.expiry), WithNotFoundExpiry(cfg.nfExpiry))
			rnd := rand.New(rand.NewSource(seed))
			db := map[string]int{}
			keys := []string{"u1", "u2", "u3"}
			var ops []string
			fail := func(format string, a ...any) {
				t.Errorf("GZV-REPRODUCED cache-aside expiry=%v notFoundExpiry=%v ops=%v: %s", cfg.expiry, cfg.nfExpiry, ops, fmt.Sprintf(format, a...))
				s.Close()
			}
			for i := 0; i < 40; i++ {
				k := keys[rnd.Intn(len(keys))]
				switch r := rnd.Intn(12); {
				case r < 5: // read
					queries := 0
					dbFails := rnd.Intn(8) == 0
					var v int
					err := c.Take(&v, k, func(val any) error {
						queries++
						if dbFails {
							return errDB
						}
						row, ok := db[k]
						if !ok {
							return errNotFound
						}
						*(val.(*int)) = row
						return nil
					})
					ops = append(ops, fmt.Sprintf("read %s(dbFails=%v)", k, dbFails))
					row, ok := db[k]
					switch {
					case queries > 1:
						fail("%d database queries for one read", queries)
						return
					case errors.Is(err, errDB):
						if queries != 1 {
							fail("database error reported without a query")
							return
						}
						if s.Exists(k) {
							fail("key %s cached although the database query failed", k)
							return
						}
					case ok && (err != nil || v != row):
						fail("read %s = (%d, %v), database row is %d", k, v, err, row)
						return
					case !ok && !errors.Is(err, errNotFound):
						fail("read %s = (%d, %v), the row does not exist", k, v, err)
						return
					}
					if s.Exists(k) {
						ttl := s.TTL(k)
						base := cfg.expiry
						if !ok {
							base = cfg.nfExpiry
						}
						hi := time.Duration(float64(base)*1.05) + time.Second
						if ttl <= 0 || ttl > hi {
							fail("key %s has TTL %v after the read (0 = persistent); expected a finite TTL of at most %v", k, ttl, hi)
							return
						}
					}
				case r < 8: // committed write followed by invalidation, as CachedConn.Exec does
					db[k] = i
					if err := c.Del(k); err != nil {
						fail("Del: %v", err)
						return
					}
					ops = append(ops, fmt.Sprintf("write %s=%d", k, i))
					if s.Exists(k) {
						fail("key %s still cached after the invalidation", k)
						return
					}
				case r < 9: // row deleted
					delete(db, k)
					_ = c.Del(k)
					ops = append(ops, "delete "+k)
				case r < 10: // store fault: reads must fail closed, without querying
					s.SetError("LOADING store is down")
					queries := 0
					var v int
					err := c.Take(&v, k, func(val any) error { queries++; return nil })
					s.SetError("")
					ops = append(ops, "read "+k+" while the store is down")
					if err == nil || queries != 0 {
						fail("read during a store fault: err=%v, database queries=%d (expected the store error and no query)", err, queries)
						return
					}
				default:
					d := []time.Duration{time.Second, cfg.nfExpiry + time.Second, cfg.expiry + 2*time.Second}[rnd.Intn(3)]
					s.FastForward(d)
					ops = append(ops, fmt.Sprintf("+%v", d))
				}
			}
			s.Close()
		}
	}
}

// the cache CLUSTER (consistent-hash dispatch over several nodes) is not under contract: bounded stand-in.
// Oracle: a read-through followed by an invalidation of any set of keys (one call) leaves none of those keys cached on any
// node, and reads go to the node the key was written to (a value set is the value got).
func TestGzvBoundedCacheCluster(t *testing.T) {
	logx.Disable()
	errNotFound := errors.New("row not found")
	for nodes := 2; nodes <= 3; nodes++ {
		var servers []*miniredis.Miniredis
		var conf ClusterConf
		for i := 0; i < nodes; i++ {
			s, err := miniredis.Run()
			if err != nil {
				t.Fatalf("miniredis: %v", err)
			}
			defer s.Close()
			servers = append(servers, s)
			conf = append(conf, NodeConf{RedisConf: redis.RedisConf{Host: s.Addr(), Type: redis.NodeType}, Weight: 100})
		}
		barrier := syncx.NewSingleFlight()
		c := New(conf, barrier, NewStat("gzvc"), errNotFound)
		// every node of the cluster guards its loads with the caller's barrier (so that caches built over one barrier - as
		// sqlc and monc do for all their connections - suppress each other's concurrent loads of a key)
		if cc, ok := c.(cacheCluster); ok {
			for i := 0; i < 200; i++ {
				n, found := cc.dispatcher.Get(fmt.Sprintf("user:%d", i))
				if !found {
					continue
				}
				if cn, isNode := n.(cacheNode); isNode && cn.barrier != barrier {
					t.Errorf("GZV-REPRODUCED cache cluster of %d nodes built with barrier B: the node serving key user:%d guards its loads with another barrier (two caches sharing B would both query the database for one key at the same time)", nodes, i)
					return
				}
			}
		}
		rnd := rand.New(rand.NewSource(int64(nodes)))
		for round := 0; round < 60; round++ {
			n := 1 + rnd.Intn(6)
			var keys []string
			for i := 0; i < n; i++ {
				keys = append(keys, fmt.Sprintf("user:%d", rnd.Intn(40)))
			}
			for i, k := range keys {
				if err := c.Set(k, round*100+i); err != nil {
					t.Fatalf("Set: %v", err)
				}
				var v int
				if err := c.Get(k, &v); err != nil || v != round*100+i {
					t.Errorf("GZV-REPRODUCED cache cluster of %d nodes: Set(%s,%d) then Get = (%d,%v)", nodes, k, round*100+i, v, err)
					return
				}
			}
			if err := c.Del(keys...); err != nil {
				t.Fatalf("Del: %v", err)
			}
			for _, k := range keys {
				for j, s := range servers {
					if s.Exists(k) {
						t.Errorf("GZV-REPRODUCED cache cluster of %d nodes: after Del(%v) key %s is still cached on node %d", nodes, keys, k, j)
						return
					}
				}
			}
		}
	}
	t.Log("GZV-BOUNDED clusters of 2 and 3 nodes, 60 rounds of 1..6 keys (40 distinct) set, read and invalidated in one call")
}
