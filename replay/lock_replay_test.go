package redis

// gzv replay driver for the Redis lock (C19). Injected with `go test -overlay`; never part of /repo.
// Oracle = the property statement: at most one holder at a time; Acquire succeeds only if nobody else holds the key
// unexpired (the holder itself may re-acquire and thereby refreshes the lease); the lease lasts seconds*1000+500 ms;
// Release frees the key only for the current holder and reports false otherwise.
// The real Lua scripts run in miniredis through the real RedisLock; store time is moved with FastForward.

import (
	"fmt"
	"math/rand"
	"testing"
	"time"

	"github.com/alicebob/miniredis/v2"
	"github.com/zeromicro/go-zero/core/logx"
)

func TestGzvReplayLock(t *testing.T) {
	logx.Disable()
	for _, secs := range []uint32{1, 2, 5, 86400, 4294967, 4294968} {
		for seed := int64(0); seed < 12; seed++ {
			s, err := miniredis.Run()
			if err != nil {
				t.Fatalf("miniredis: %v", err)
			}
			store := New(s.Addr())
			locks := []*RedisLock{NewRedisLock(store, "gzvlock"), NewRedisLock(store, "gzvlock"), NewRedisLock(store, "gzvlock")}
			for _, l := range locks {
				l.SetExpire(int(secs))
			}
			rnd := rand.New(rand.NewSource(seed))
			holder := -1         // reference: index of the holder, -1 none
			var leftMs int64 = 0 // reference: remaining lease
			lease := int64(secs)*1000 + 500
			var ops []string
			for i := 0; i < 40; i++ {
				who := rnd.Intn(len(locks))
				switch r := rnd.Intn(10); {
				case r < 4:
					ok, err := locks[who].Acquire()
					ops = append(ops, fmt.Sprintf("acquire#%d", who))
					want := holder == -1 || holder == who
					if err != nil || ok != want {
						t.Errorf("GZV-REPRODUCED redis lock seconds=%d ops=%v: Acquire by #%d = (%v,%v), expected %v (holder #%d, %d ms left)", secs, ops, who, ok, err, want, holder, leftMs)
						s.Close()
						return
					}
					if ok {
						holder, leftMs = who, lease
					}
				case r < 7:
					ok, err := locks[who].Release()
					ops = append(ops, fmt.Sprintf("release#%d", who))
					want := holder == who
					if err != nil || ok != want {
						t.Errorf("GZV-REPRODUCED redis lock seconds=%d ops=%v: Release by #%d = (%v,%v), expected %v (holder #%d)", secs, ops, who, ok, err, want, holder)
						s.Close()
						return
					}
					if ok {
						holder, leftMs = -1, 0
					}
				default:
					// advance the store clock: just before / exactly at / after the end of the lease, or a small step
					var d int64
					switch rnd.Intn(4) {
					case 0:
						d = leftMs - 1
					case 1:
						d = leftMs
					case 2:
						d = leftMs + 1
					default:
						d = int64(rnd.Intn(1500))
					}
					if d <= 0 {
						d = 1
					}
					s.FastForward(time.Duration(d) * time.Millisecond)
					ops = append(ops, fmt.Sprintf("+%dms", d))
					if holder != -1 {
						leftMs -= d
						if leftMs <= 0 {
							holder, leftMs = -1, 0
						}
					}
				}
				if holder != -1 {
					if ttl := s.TTL("gzvlock"); ttl.Milliseconds() != leftMs {
						t.Errorf("GZV-REPRODUCED redis lock seconds=%d ops=%v: lease has %d ms left in the store, expected %d", secs, ops, ttl.Milliseconds(), leftMs)
						s.Close()
						return
					}
				} else if s.Exists("gzvlock") {
					t.Errorf("GZV-REPRODUCED redis lock seconds=%d ops=%v: key still present although nobody holds it", secs, ops)
					s.Close()
					return
				}
			}
			s.Close()
		}
	}
}
