package hash

// gzv replay driver for consistent hashing (C15). Injected with `go test -overlay`; never part of /repo.
// Oracle = the property statement: Get answers only with current members (nothing on an empty ring); the mapping depends
// only on the current set of nodes and their replica counts (not on the history that produced it); removing or adding a
// node only moves keys from or to that node.

import (
	"fmt"
	"math/rand"
	"sort"
	"testing"
)

func gzvBuild(members map[string]int) *ConsistentHash {
	h := NewConsistentHash()
	var names []string
	for n := range members {
		names = append(names, n)
	}
	sort.Strings(names)
	for _, n := range names {
		h.AddWithWeight(n, members[n])
	}
	return h
}

// names whose virtual-node names (repr + replica index) never coincide
func TestGzvReplayHash(t *testing.T) {
	gzvHashHistories(t, []string{"node-a", "node-b", "node-c", "10.0.0.1:80", "10.0.0.11:80", "n5-"}, "")
}

// names whose virtual-node names DO coincide ("1"+"10" == "11"+"0"): the nodes then share ring slots, and which of them a
// shared slot answers with depends on the insertion order (known finding F14)
func TestGzvBoundedHashSharedSlots(t *testing.T) {
	gzvHashHistories(t, []string{"1", "11", "10.0.0.1", "10.0.0.11", "node-a"}, "nodes share ring slots: ")
	t.Log("GZV-BOUNDED histories of 14 operations over 5 node names of which two pairs share virtual-node names, 60 seeds, 400 probe keys")
}

func gzvHashHistories(t *testing.T, names []string, tag string) {
	probes := make([]string, 400)
	for i := range probes {
		probes[i] = fmt.Sprintf("key-%d", i)
	}
	for seed := int64(0); seed < 60; seed++ {
		rnd := rand.New(rand.NewSource(seed))
		h := NewConsistentHash()
		members := map[string]int{} // name -> weight
		var ops []string
		if _, ok := h.Get("x"); ok {
			t.Errorf("GZV-REPRODUCED "+tag+"consistent hash: Get on an empty ring answered")
			return
		}
		for i := 0; i < 14; i++ {
			n := names[rnd.Intn(len(names))]
			before := map[string]string{}
			for _, p := range probes {
				if v, ok := h.Get(p); ok {
					before[p] = v.(string)
				}
			}
			switch rnd.Intn(4) {
			case 0:
				h.Add(n)
				members[n] = 100
				ops = append(ops, "Add "+n)
			case 1:
				w := []int{0, 1, 30, 100}[rnd.Intn(4)]
				h.AddWithWeight(n, w)
				members[n] = w
				ops = append(ops, fmt.Sprintf("AddWithWeight %s %d", n, w))
			default:
				h.Remove(n)
				delete(members, n)
				ops = append(ops, "Remove "+n)
			}
			fresh := gzvBuild(members)
			live := 0
			for _, w := range members {
				if w > 0 {
					live++
				}
			}
			for _, p := range probes {
				v, ok := h.Get(p)
				fv, fok := fresh.Get(p)
				if ok != (live > 0) {
					t.Errorf("GZV-REPRODUCED "+tag+"consistent hash ops=%v: Get(%s) ok=%v with %d members carrying replicas", ops, p, ok, live)
					return
				}
				if !ok {
					continue
				}
				if w, in := members[v.(string)]; !in || w <= 0 {
					t.Errorf("GZV-REPRODUCED "+tag+"consistent hash ops=%v: Get(%s)=%v which is not a current member (members %v)", ops, p, v, members)
					return
				}
				if fok && fv != v {
					t.Errorf("GZV-REPRODUCED "+tag+"consistent hash ops=%v: Get(%s)=%v but a ring built directly from the same members %v answers %v (history dependence)", ops, p, v, members, fv)
					return
				}
				if b, had := before[p]; had && b != v.(string) && b != n && v.(string) != n {
					t.Errorf("GZV-REPRODUCED "+tag+"consistent hash ops=%v: key %s moved from %s to %s although only %s changed", ops, p, b, v, n)
					return
				}
			}
		}
	}
}

// Shared ring slots again, but only whole-weight members (Add / Remove): there the real ring is a function of the members
// and of the order in which the current members were (last) added - a shared slot answers in that order - so it must equal
// a ring built by adding the current members in that order, and an Add/Remove may only move keys to/from the node concerned.
// (Weights below 100 on colliding names are the known finding F14 and are kept out of this stand-in.)
func TestGzvBoundedHashSharedSlotsWhole(t *testing.T) {
	names := []string{"1", "11", "10.0.0.1", "10.0.0.11", "localhost:1", "localhost:11", "node-a"}
	probes := make([]string, 600)
	for i := range probes {
		probes[i] = fmt.Sprintf("key-%d", i)
	}
	for seed := int64(0); seed < 80; seed++ {
		rnd := rand.New(rand.NewSource(seed))
		h := NewConsistentHash()
		var order []string // current members, in the order of their last Add
		var ops []string
		for i := 0; i < 12; i++ {
			n := names[rnd.Intn(len(names))]
			before := map[string]string{}
			for _, p := range probes {
				if v, ok := h.Get(p); ok {
					before[p] = v.(string)
				}
			}
			var next []string
			for _, m := range order {
				if m != n {
					next = append(next, m)
				}
			}
			if rnd.Intn(5) < 3 {
				h.Add(n)
				next = append(next, n)
				ops = append(ops, "Add "+n)
			} else {
				h.Remove(n)
				ops = append(ops, "Remove "+n)
			}
			order = next
			fresh := NewConsistentHash()
			for _, m := range order {
				fresh.Add(m)
			}
			for _, p := range probes {
				v, ok := h.Get(p)
				fv, fok := fresh.Get(p)
				if ok != (len(order) > 0) || ok != fok {
					t.Errorf("GZV-REPRODUCED whole-weight nodes sharing ring slots: ops=%v: Get(%s) ok=%v, a ring built from the members %v answers ok=%v", ops, p, ok, order, fok)
					return
				}
				if !ok {
					continue
				}
				if fv != v {
					t.Errorf("GZV-REPRODUCED whole-weight nodes sharing ring slots: ops=%v: Get(%s)=%v but a ring built by adding the current members %v in this order answers %v", ops, p, v, order, fv)
					return
				}
				if b, had := before[p]; had && b != v.(string) && b != n && v.(string) != n {
					t.Errorf("GZV-REPRODUCED whole-weight nodes sharing ring slots: ops=%v: key %s moved from %s to %s although only %s changed", ops, p, b, v, n)
					return
				}
			}
		}
	}
	t.Log("GZV-BOUNDED histories of 12 Add/Remove operations over 7 node names of which three pairs share virtual-node names, 80 seeds, 600 probe keys")
}
