package threading

// gzv replay driver for TaskRunner (C05). Injected with `go test -overlay`; never part of /repo.
// Oracle = the property statement: never more than n tasks at once; beyond the cap ScheduleImmediately refuses with
// ErrTaskRunnerBusy and the task is not started; after all holders have finished — including by panic — the full
// capacity is available again.

import (
	"sync"
	"sync/atomic"
	"testing"

	"github.com/zeromicro/go-zero/core/logx"
)

func TestGzvReplayTaskRunner(t *testing.T) {
	logx.Disable()
	for n := 1; n <= 3; n++ {
		for _, how := range []string{"return", "panic"} {
			for _, immediate := range []bool{false, true} {
				r := NewTaskRunner(n)
				for round := 0; round < 3; round++ {
					release := make(chan struct{})
					var inside, peak int32
					var started sync.WaitGroup
					started.Add(n)
					for i := 0; i < n; i++ {
						task := func() {
							cur := atomic.AddInt32(&inside, 1)
							for {
								p := atomic.LoadInt32(&peak)
								if cur <= p || atomic.CompareAndSwapInt32(&peak, p, cur) {
									break
								}
							}
							started.Done()
							<-release
							atomic.AddInt32(&inside, -1)
							if how == "panic" {
								panic("task failed")
							}
						}
						if immediate {
							if err := r.ScheduleImmediately(task); err != nil {
								t.Errorf("GZV-REPRODUCED TaskRunner(%d) round %d (tasks end by %s, ScheduleImmediately): task %d of %d refused on a runner whose earlier tasks have all finished: %v", n, round, how, i+1, n, err)
								return
							}
						} else {
							r.Schedule(task)
						}
					}
					started.Wait()
					extraRan := int32(0)
					if err := r.ScheduleImmediately(func() { atomic.StoreInt32(&extraRan, 1) }); err != ErrTaskRunnerBusy {
						t.Errorf("GZV-REPRODUCED TaskRunner(%d) round %d: task beyond the cap admitted (err=%v) while %d tasks are running", n, round, err, n)
						close(release)
						return
					}
					close(release)
					r.Wait()
					if atomic.LoadInt32(&extraRan) != 0 || int(atomic.LoadInt32(&peak)) > n {
						t.Errorf("GZV-REPRODUCED TaskRunner(%d) round %d: refused task ran=%v, peak concurrency %d", n, round, extraRan != 0, peak)
						return
					}
				}
			}
		}
	}
}
