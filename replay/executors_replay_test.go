package executors

// gzv replay driver for the bulk / chunk / periodical executors (C11). Injected with `go test -overlay`; never part of
// /repo. Oracle = the property statement: every task added is passed to the execute callback exactly once — in the batch
// that its own threshold or a Flush / Wait closed — and Wait returns only after the callbacks for all tasks added before it
// have returned. Schedules are forced with channels where a callback has to be slow; no sleeps on the deciding path.

import (
	"fmt"
	"sort"
	"sync"
	"testing"
	"time"
)

func TestGzvReplayExecutors(t *testing.T) {
	for _, kind := range []string{"bulk", "chunk"} {
		for _, threshold := range []int{1, 2, 3, 5} {
			for _, total := range []int{1, 2, 3, 4, 7, 11} {
				var mu sync.Mutex
				seen := map[int]int{}
				var batches [][]int
				firstStarted := make(chan struct{})
				_ = firstStarted
				releaseFirst := make(chan struct{})
				first := true
				exec := func(tasks []any) {
					mu.Lock()
					isFirst := first
					first = false
					mu.Unlock()
					if isFirst {
						close(firstStarted)
						<-releaseFirst // the first batch is slow: later Adds happen while it is being consumed
					}
					var b []int
					for _, x := range tasks {
						b = append(b, x.(int))
					}
					mu.Lock()
					for _, x := range b {
						seen[x]++
					}
					batches = append(batches, b)
					mu.Unlock()
				}
				var add func(i int)
				var wait func()
				if kind == "bulk" {
					e := NewBulkExecutor(exec, WithBulkTasks(threshold), WithBulkInterval(time.Hour))
					add = func(i int) { _ = e.Add(i) }
					wait = e.Wait
				} else {
					e := NewChunkExecutor(exec, WithChunkBytes(threshold*10), WithFlushInterval(time.Hour))
					add = func(i int) { _ = e.Add(i, 10) }
					wait = e.Wait
				}
				// the producer runs on its own goroutine (an Add that reaches the threshold blocks while the flusher is busy);
				// the first callback is released once the producer has got as far as it can or all tasks are in
				produced := make(chan int, total+1)
				go func() {
					for i := 1; i <= total; i++ {
						add(i)
						produced <- i
					}
					close(produced)
				}()
			feed:
				for {
					select {
					case _, ok := <-produced:
						if !ok {
							break feed
						}
					case <-time.After(30 * time.Millisecond):
						break feed // the producer is parked behind the slow first callback
					}
				}
				close(releaseFirst)
				for range produced {
				}
				wait()
				mu.Lock()
				var bad []string
				for i := 1; i <= total; i++ {
					if seen[i] != 1 {
						bad = append(bad, fmt.Sprintf("task %d executed %d times", i, seen[i]))
					}
				}
				sort.Strings(bad)
				b := fmt.Sprint(batches)
				mu.Unlock()
				if len(bad) > 0 {
					t.Errorf("GZV-REPRODUCED %s executor threshold=%d tasks 1..%d (first callback slow, Wait at the end): %v; batches seen by the callback: %s", kind, threshold, total, bad, b)
					return
				}
			}
		}
	}
}
