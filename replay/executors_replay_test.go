package executors

// gzv replay driver for the bulk / chunk / periodical executors (C11). Injected with `go test -overlay`; never part of
// /repo. Oracle = the property statement: every task added is passed to the execute callback exactly once — in the batch
// that its own threshold or a Flush / Wait closed — and Wait returns only after the callbacks for all tasks added before it
// have returned. Schedules are forced with channels where a callback has to be slow; no sleeps on the deciding path.

import (
	"fmt"
	"os"
	"sort"
	"strings"
	"sync"
	"sync/atomic"
	"testing"
	"time"
)

func TestGzvReplayExecutors(t *testing.T) {
	gzvF16TwoProducers(t)
	if t.Failed() {
		return
	}
	for _, kind := range []string{"bulk", "chunk"} {
		for _, threshold := range []int{1, 2, 3, 5} {
			for _, total := range []int{1, 2, 3, 4, 7, 11} {
				var mu sync.Mutex
				seen := map[int]int{}
				var batches [][]int
				firstStarted := make(chan struct{})
				_ = firstStarted
				releaseFirst := make(chan struct{})
				first := true
				exec := func(tasks []any) {
					mu.Lock()
					isFirst := first
					first = false
					mu.Unlock()
					if isFirst {
						close(firstStarted)
						<-releaseFirst // the first batch is slow: later Adds happen while it is being consumed
					}
					var b []int
					for _, x := range tasks {
						b = append(b, x.(int))
					}
					mu.Lock()
					for _, x := range b {
						seen[x]++
					}
					batches = append(batches, b)
					mu.Unlock()
				}
				var add func(i int)
				var wait func()
				if kind == "bulk" {
					e := NewBulkExecutor(exec, WithBulkTasks(threshold), WithBulkInterval(time.Hour))
					add = func(i int) { _ = e.Add(i) }
					wait = e.Wait
				} else {
					e := NewChunkExecutor(exec, WithChunkBytes(threshold*10), WithFlushInterval(time.Hour))
					add = func(i int) { _ = e.Add(i, 10) }
					wait = e.Wait
				}
				// the producer runs on its own goroutine (an Add that reaches the threshold blocks while the flusher is busy);
				// the first callback is released once the producer has got as far as it can or all tasks are in
				produced := make(chan int, total+1)
				go func() {
					for i := 1; i <= total; i++ {
						add(i)
						produced <- i
					}
					close(produced)
				}()
			feed:
				for {
					select {
					case _, ok := <-produced:
						if !ok {
							break feed
						}
					case <-time.After(30 * time.Millisecond):
						break feed // the producer is parked behind the slow first callback
					}
				}
				close(releaseFirst)
				for range produced {
				}
				wait()
				mu.Lock()
				var bad []string
				for i := 1; i <= total; i++ {
					if seen[i] != 1 {
						bad = append(bad, fmt.Sprintf("task %d executed %d times", i, seen[i]))
					}
				}
				sort.Strings(bad)
				b := fmt.Sprint(batches)
				mu.Unlock()
				if len(bad) > 0 {
					t.Errorf("GZV-REPRODUCED %s executor threshold=%d tasks 1..%d (first callback slow, Wait at the end): %v; batches seen by the callback: %s", kind, threshold, total, bad, b)
					return
				}
			}
		}
	}
}

// --- F16: two producers, one paused inside Add between the hand-over and the confirmation ---
// producerRegisters reports whether Add registers its batch with the wait group itself, before the hand-over (the repaired
// protocol), so that the emulated first half of producer A's Add below executes the statements the source has.
func f16ProducerRegisters(t *testing.T) bool {
	src, err := os.ReadFile("periodicalexecutor.go")
	if err != nil {
		t.Fatal(err)
	}
	body := string(src)
	i := strings.Index(body, "func (pe *PeriodicalExecutor) Add(")
	j := strings.Index(body[i:], "pe.commander <- vals")
	if i < 0 || j < 0 {
		t.Fatal("Add has an unexpected shape")
	}
	return strings.Contains(body[i:i+j], "pe.enterExecution()")
}

type f16Container struct {
	tasks []any
	exec  func(tasks any)
}

func (c *f16Container) AddTask(task any) bool { c.tasks = append(c.tasks, task); return true } // threshold 1
func (c *f16Container) Execute(tasks any)     { c.exec(tasks) }
func (c *f16Container) RemoveAll() any        { t := c.tasks; c.tasks = nil; return t }

func gzvF16TwoProducers(t *testing.T) {
	gateA := make(chan struct{})
	gateB := make(chan struct{})
	var doneB int32
	c := &f16Container{}
	c.exec = func(tasks any) {
		for _, x := range tasks.([]any) {
			switch x.(string) {
			case "A":
				<-gateA
			case "B":
				<-gateB
				atomic.StoreInt32(&doneB, 1)
			}
		}
	}
	pe := NewPeriodicalExecutor(time.Hour, c)
	// producer A, first statement of Add (the real addAndCheck and the real send)
	vals, ok := pe.addAndCheck("A")
	if !ok {
		t.Fatal("threshold not reached")
	}
	if f16ProducerRegisters(t) {
		pe.enterExecution()
	}
	pe.commander <- vals
	// ... A is descheduled here, before `<-pe.confirmChan`.
	// wait until the flusher has taken A's batch (inflight back to 0) - it then registers it and offers the confirmation
	for i := 0; atomic.LoadInt32(&pe.inflight) != 0; i++ {
		if i > 5000 {
			t.Fatal("flusher did not take A's batch")
		}
		time.Sleep(time.Millisecond)
	}
	// producer B: the real Add, then the real Wait
	waitReturned := make(chan struct{})
	go func() {
		pe.Add("B")
		pe.Wait()
		close(waitReturned)
	}()
	// B's Wait can only return after A's batch is done (that one is registered): let A's batch finish
	time.Sleep(50 * time.Millisecond)
	close(gateA)
	select {
	case <-waitReturned:
		if atomic.LoadInt32(&doneB) == 0 {
			t.Errorf("GZV-REPRODUCED periodical executor, two producers (A paused inside Add between the hand-over and the confirmation): B's Add took A's confirmation; B's Wait returned although B's own task has not been executed (its callback has not returned)")
		}
	case <-time.After(2 * time.Second):
		// B's Wait is still waiting for B's task: the property holds on this schedule
	}
	close(gateB)
	// let A finish its Add so that nothing is left blocked
	go func() { <-pe.confirmChan }()
	time.Sleep(50 * time.Millisecond)
}
