package limit

// gzv replay driver for the Redis-backed limiters (C03). Injected with `go test -overlay`; never part of /repo.
// Oracle = the property statement: the instances sharing a token bucket key jointly grant exactly what one bucket of
// `burst` tokens refilled at `rate` per second grants (never more than burst + rate x elapsed); a period limiter grants
// exactly `quota` requests per period, the quota-th reported as HitQuota, later ones OverQuota until the period is over.
// The real Lua scripts run in miniredis through the real Go wrappers; store time is moved with FastForward.

import (
	"fmt"
	"testing"
	"time"

	"github.com/alicebob/miniredis/v2"
	"github.com/zeromicro/go-zero/core/logx"
	"github.com/zeromicro/go-zero/core/stores/redis"
)

func gzvToken(t *testing.T, rate, burst int, gaps []int, reqs []int) bool {
	logx.Disable()
	s, err := miniredis.Run()
	if err != nil {
		t.Errorf("miniredis: %v", err)
		return false
	}
	defer s.Close()
	a := NewTokenLimiter(rate, burst, redis.New(s.Addr()), "gzv")
	b := NewTokenLimiter(rate, burst, redis.New(s.Addr()), "gzv")
	now := time.Unix(1_700_000_000, 0)
	s.SetTime(now)
	tokens, ts := burst, int64(0) // reference bucket
	granted, t0 := 0, now.Unix()
	for i := range gaps {
		now = now.Add(time.Duration(gaps[i]) * time.Second)
		s.SetTime(now)
		s.FastForward(time.Duration(gaps[i]) * time.Second)
		lim := a
		if i%2 == 1 {
			lim = b
		}
		n := reqs[i%len(reqs)]
		got := lim.AllowN(now, n)
		if lim.monitorStarted || lim.redisAlive == 0 {
			t.Errorf("GZV-REPRODUCED token limiter rate=%d burst=%d gaps(s)=%v: the shared bucket became unusable at step %d (script error), instances fall back to local limiters", rate, burst, gaps[:i+1], i)
			return false
		}
		fill := tokens + int(now.Unix()-ts)*rate
		if fill > burst || ts == 0 {
			fill = burst
		}
		want := fill >= n
		if want {
			tokens = fill - n
		} else {
			tokens = fill
		}
		ts = now.Unix()
		if got {
			granted += n
		}
		if got != want || granted > burst+rate*int(now.Unix()-t0) {
			t.Errorf("GZV-REPRODUCED token limiter rate=%d burst=%d gaps(s)=%v requests=%v: step %d (instance %d, n=%d) answered %v, one shared bucket answers %v; granted %d so far, bound %d", rate, burst, gaps[:i+1], reqs, i, i%2, n, got, want, granted, burst+rate*int(now.Unix()-t0))
			return false
		}
	}
	return true
}

func gzvPeriod(t *testing.T, period, quota int, gaps []int) bool {
	logx.Disable()
	s, err := miniredis.Run()
	if err != nil {
		t.Errorf("miniredis: %v", err)
		return false
	}
	defer s.Close()
	l := NewPeriodLimit(period, quota, redis.New(s.Addr()), "gzvp")
	count, left := 0, 0 // reference: requests in the running period, seconds until it ends (0 = none running)
	for i, g := range gaps {
		s.FastForward(time.Duration(g) * time.Second)
		if left > 0 {
			left -= g
			if left <= 0 {
				count, left = 0, 0
			}
		}
		code, err := l.Take("k")
		if err != nil {
			t.Errorf("GZV-REPRODUCED period limiter period=%d quota=%d gaps=%v: error %v", period, quota, gaps[:i+1], err)
			return false
		}
		count++
		if count == 1 {
			left = period
		}
		want := OverQuota
		if count < quota {
			want = Allowed
		} else if count == quota {
			want = HitQuota
		}
		if code != want {
			t.Errorf("GZV-REPRODUCED period limiter period=%ds quota=%d gaps(s)=%v: request %d in its period answered %d, expected %d (1 allowed, 2 hit quota, 3 over quota)", period, quota, gaps[:i+1], count, code, want)
			return false
		}
	}
	return true
}

func TestGzvReplayLimit(t *testing.T) {
	for _, rb := range [][2]int{{1, 1}, {1, 3}, {2, 1}, {3, 1}, {10, 4}, {4, 10}, {5, 10}, {3, 7}, {7, 3}, {100, 1}} {
		rate, burst := rb[0], rb[1]
		ft := burst / rate
		for _, gaps := range [][]int{
			{0, 0, 0, 0, 0, 0, 0, 0, 0, 0, 0, 0},
			{0, 0, 0, 1, 0, 0, 1, 0, 0, 2, 0, 0},
			{0, 0, 0, 0, 0, 0, 0, 0, 0, 0, 0, ft, 0, 0, 0, 0, 0, 0, 0, 0, 0, 0, 0},
			{0, 0, 0, 0, 0, 0, 0, 0, 0, 0, 0, ft + 1, 0, 0, 0, 0, 0, 0, 0, 0, 0, 0, 0},
			{0, 0, 0, 0, 0, 0, 0, 0, 0, 0, 0, 2 * ft, 0, 0, 0, 0, 0, 0, 0, 0, 0, 0, 0},
			{0, 0, 0, 0, 0, 0, 0, 0, 0, 0, 0, 2*ft + 1, 0, 0, 0, 0, 0, 0, 0, 0, 0, 0, 0},
			{0, 0, 0, 0, 0, 0, 0, 0, 0, 0, 0, 1, 1, 1, 1, 1, 1, 1, 1, 1, 1, 1, 1},
		} {
			for _, reqs := range [][]int{{1}, {1, 2}, {2}, {burst}} {
				if !gzvToken(t, rate, burst, gaps, reqs) {
					return
				}
			}
		}
	}
	for _, pq := range [][2]int{{1, 1}, {2, 3}, {60, 3}, {10, 1}, {5, 5}} {
		period, quota := pq[0], pq[1]
		for _, gaps := range [][]int{
			{0, 0, 0, 0, 0, 0, 0},
			{0, 0, 0, 0, 0, period - 1, 0, 1, 0, 0, 0, 0, 0, 0},
			{0, 0, 0, 0, 0, period, 0, 0, 0, 0, 0},
			{0, 0, 0, 0, 0, period / 2, 0, 0, period, 0, 0, 0, 0, 0},
			{0, 1, 0, 1, 0, 1, 0, 1, 0, 1, 0, 1},
		} {
			if !gzvPeriod(t, period, quota, gaps) {
				return
			}
		}
	}
	_ = fmt.Sprint
}
