package load

// gzv replay driver for the adaptive shedder (C02). Injected with `go test -overlay` together with a virtual clock that
// replaces core/timex/relativetime.go for this run only; never part of /repo.
// Oracle = the property statement: a request is shed only when the overload checker fired now or within the last second
// while shedding, and only if the in-flight count exceeds at least 10 % of the capacity estimate (max passes per bucket x
// min average latency, per second); with nothing in flight nothing is shed; a request is in flight from Allow until its
// promise is resolved, exactly once; a disabled shedder never sheds.
// CPU usage itself cannot be set from a test (core/stat samples it), so the overload FACTOR is taken as the most permissive
// one: the reference capacity floor is 10 % of the estimate.

import (
	"fmt"
	"math/rand"
	"testing"
	"time"

	"github.com/zeromicro/go-zero/core/logx"
	"github.com/zeromicro/go-zero/core/timex"
)

func TestGzvReplayShedder(t *testing.T) {
	logx.Disable()
	enabled.Set(true)
	oldChecker := systemOverloadChecker
	defer func() { systemOverloadChecker = oldChecker }()
	overloaded := false
	systemOverloadChecker = func(int64) bool { return overloaded }
	for _, cfg := range []struct {
		window  time.Duration
		buckets int
	}{{5 * time.Second, 50}, {time.Second, 10}, {time.Minute, 50}, {3 * time.Second, 7}} {
		for seed := int64(0); seed < 12; seed++ {
			rnd := rand.New(rand.NewSource(seed))
			now := 7000 * time.Hour
			timex.SetVirtualNow(now)
			sh := NewAdaptiveShedder(WithWindow(cfg.window), WithBuckets(cfg.buckets)).(*adaptiveShedder)
			bucketDur := cfg.window / time.Duration(cfg.buckets)
			type call struct {
				p     Promise
				start time.Duration
			}
			var open []call
			lastOverload := time.Duration(-1)
			var ops []string
			for i := 0; i < 400; i++ {
				switch r := rnd.Intn(20); {
				case r < 9:
					// the estimate the property talks about, from the shedder's own windows at this instant
					maxPass, minRt := sh.maxPass(), sh.minRt()
					perSecond := float64(time.Second) / float64(bucketDur)
					capacity := float64(maxPass) * minRt * perSecond / 1000
					if capacity < 1 {
						capacity = 1
					}
					if overloaded {
						lastOverload = now
					}
					flying := int64(len(open))
					p, err := sh.Allow()
					ops = append(ops, fmt.Sprintf("Allow(overloaded=%v)", overloaded))
					if err != nil {
						recently := lastOverload >= 0 && now-lastOverload < time.Second
						if !recently {
							t.Errorf("GZV-REPRODUCED shedder window=%v buckets=%d ops=%v: request shed although the overload checker did not fire within the last second", cfg.window, cfg.buckets, tailOps(ops))
							return
						}
						if float64(flying) <= 0.1*capacity*0.999 {
							t.Errorf("GZV-REPRODUCED shedder window=%v buckets=%d ops=%v: request shed with %d in flight; 10%% of the capacity estimate is %.2f (maxPass=%d per bucket, minRt=%.0f ms, %.2f buckets/s)", cfg.window, cfg.buckets, tailOps(ops), flying, 0.1*capacity, maxPass, minRt, perSecond)
							return
						}
					} else {
						open = append(open, call{p, now})
					}
					if got := sh.flying; got != int64(len(open)) {
						t.Errorf("GZV-REPRODUCED shedder ops=%v: in-flight counter %d, %d requests are in flight", tailOps(ops), got, len(open))
						return
					}
				case r < 15:
					if len(open) > 0 {
						j := rnd.Intn(len(open))
						if rnd.Intn(5) == 0 {
							open[j].p.Fail()
						} else {
							open[j].p.Pass()
						}
						open = append(open[:j], open[j+1:]...)
						ops = append(ops, "resolve")
						if got := sh.flying; got != int64(len(open)) {
							t.Errorf("GZV-REPRODUCED shedder ops=%v: in-flight counter %d after a promise was resolved, %d requests are in flight", tailOps(ops), got, len(open))
							return
						}
					}
				case r < 17:
					overloaded = !overloaded
					ops = append(ops, fmt.Sprintf("overloaded:=%v", overloaded))
				default:
					d := []time.Duration{time.Millisecond, 20 * time.Millisecond, bucketDur, 999 * time.Millisecond, 1001 * time.Millisecond, cfg.window + bucketDur}[rnd.Intn(6)]
					now += d
					timex.SetVirtualNow(now)
					ops = append(ops, fmt.Sprintf("+%v", d))
				}
			}
			overloaded = false
		}
	}
}

func tailOps(ops []string) []string {
	if len(ops) > 14 {
		return ops[len(ops)-14:]
	}
	return ops
}
