package zrpc

// F17 demonstration (injected with go test -overlay; nothing is written to /repo):
// zrpc.NewServer builds its unary interceptors - among them the load-shedding interceptor, whose adaptive shedder reads the
// package switch core/load.enabled ONCE, when it is constructed - BEFORE it runs RpcServerConf.SetUp, which is what calls
// load.Disable() for the modes dev / test / rt / pre. The first zRPC server of a process in one of those modes therefore
// sheds under overload although shedding is disabled for its mode ("a disabled shedder never sheds", C02). rest.NewServer runs
// SetUp first.

import (
	"context"
	"reflect"
	"testing"
	"unsafe"

	"github.com/zeromicro/go-zero/core/conf"
	"github.com/zeromicro/go-zero/core/logx"
	"github.com/zeromicro/go-zero/core/syncx"
	"google.golang.org/grpc"
	"google.golang.org/grpc/codes"
	"google.golang.org/grpc/status"
)

//go:linkname gzvLoadEnabled github.com/zeromicro/go-zero/core/load.enabled
var gzvLoadEnabled *syncx.AtomicBool

//go:linkname gzvOverloadChecker github.com/zeromicro/go-zero/core/load.systemOverloadChecker
var gzvOverloadChecker func(int64) bool

func TestGzvReplayZrpcNewServer(t *testing.T) {
	logx.Disable()
	prevEnabled := gzvLoadEnabled.True()
	gzvLoadEnabled.Set(true) // a fresh process: nothing has disabled shedding yet
	prevChecker := gzvOverloadChecker
	gzvOverloadChecker = func(int64) bool { return true } // the CPU is above every threshold
	defer func() {
		gzvOverloadChecker = prevChecker
		gzvLoadEnabled.Set(prevEnabled)
	}()

	const configYaml = `
Name: gzv-f17
ListenOn: localhost:0
Mode: dev
CpuThreshold: 900
Timeout: 0
Middlewares:
  Trace: false
  Recover: false
  Stat: false
  Prometheus: false
  Breaker: false
`
	var c RpcServerConf
	if err := conf.LoadFromYamlBytes([]byte(configYaml), &c); err != nil {
		t.Fatal(err)
	}
	srv, err := NewServer(c, func(*grpc.Server) {})
	if err != nil {
		t.Fatal(err)
	}
	if gzvLoadEnabled.True() {
		t.Fatal("dev mode did not disable load shedding")
	}

	// the interceptors the real server will chain (unexported field of the internal server)
	sv := reflect.ValueOf(srv.server).Elem()
	base := sv.FieldByName("baseRpcServer")
	if base.Kind() == reflect.Ptr {
		base = base.Elem()
	}
	f := base.FieldByName("unaryInterceptors")
	ics := *(*[]grpc.UnaryServerInterceptor)(unsafe.Pointer(f.UnsafeAddr()))
	if len(ics) == 0 {
		t.Skip("no unary interceptor installed")
	}
	chain := func(ctx context.Context, req any, h grpc.UnaryHandler) (any, error) {
		info := &grpc.UnaryServerInfo{FullMethod: "/gzv/f17"}
		var build func(i int) grpc.UnaryHandler
		build = func(i int) grpc.UnaryHandler {
			if i == len(ics) {
				return h
			}
			return func(ctx context.Context, req any) (any, error) { return ics[i](ctx, req, info, build(i+1)) }
		}
		return build(0)(ctx, req)
	}

	// 200 requests in flight (their handlers wait), 100 of them then fail with a deadline (nothing recorded as passed):
	// for an ENABLED shedder that is far above the default capacity estimate, so with the CPU overloaded it sheds.
	release := make(chan struct{})
	entered := make(chan struct{}, 400)
	done := make(chan error, 400)
	for i := 0; i < 200; i++ {
		go func() {
			_, err := chain(context.Background(), nil, func(ctx context.Context, req any) (any, error) {
				entered <- struct{}{}
				<-release
				return nil, context.DeadlineExceeded
			})
			done <- err
		}()
	}
	for i := 0; i < 200; i++ {
		<-entered
	}
	shed := 0
	for i := 0; i < 10; i++ {
		_, err := chain(context.Background(), nil, func(ctx context.Context, req any) (any, error) { return nil, nil })
		if status.Code(err) == codes.ResourceExhausted {
			shed++
		}
	}
	close(release)
	for i := 0; i < 200; i++ {
		<-done
	}
	if shed > 0 {
		t.Fatalf("GZV-REPRODUCED the shedder of a dev-mode zRPC server shed %d of 10 requests (200 in flight, CPU overloaded): it was built before SetUp disabled shedding", shed)
	}
}
