package handler

// gzv replay driver for the authentication gates (C18). Injected with `go test -overlay`; never part of /repo.
// Oracle = the property statement: the protected handler runs only for a token whose HMAC signature verifies under the
// current or previous secret and whose time claims are valid (every mutation gets 401 and the handler is not called; the
// non-standard claims are what the handler sees); an encrypted body reaches the handler decrypted and the response comes
// back encrypted, round-tripping any payload (independent AES-ECB/PKCS#7 client written here on crypto/aes).

import (
	"bytes"
	"crypto/aes"
	"encoding/base64"
	"fmt"
	"io"
	"net/http"
	"net/http/httptest"
	"strings"
	"testing"
	"time"

	"github.com/golang-jwt/jwt/v4"
	"github.com/zeromicro/go-zero/core/logx"
)

func gzvToken(method jwt.SigningMethod, key any, claims jwt.MapClaims) string {
	tok := jwt.NewWithClaims(method, claims)
	s, err := tok.SignedString(key)
	if err != nil {
		return "unsignable"
	}
	return s
}

func gzvEcb(key, data []byte, enc bool) []byte {
	blk, _ := aes.NewCipher(key)
	bs := blk.BlockSize()
	if enc {
		pad := bs - len(data)%bs
		data = append(append([]byte(nil), data...), bytes.Repeat([]byte{byte(pad)}, pad)...)
	}
	out := make([]byte, len(data))
	for i := 0; i+bs <= len(data); i += bs {
		if enc {
			blk.Encrypt(out[i:], data[i:i+bs])
		} else {
			blk.Decrypt(out[i:], data[i:i+bs])
		}
	}
	if !enc && len(out) > 0 {
		out = out[:len(out)-int(out[len(out)-1])]
	}
	return out
}

func TestGzvReplayAuth(t *testing.T) {
	logx.Disable()
	const cur, prev, wrong = "current-secret-0123456789", "previous-secret-0123456789", "some-other-secret-0123456789"
	now := time.Now().Unix()
	good := jwt.MapClaims{"iat": now - 10, "exp": now + 3600, "uid": "42", "role": "admin"}
	cases := []struct {
		name  string
		token string
		ok    bool
	}{
		{"valid, current secret", gzvToken(jwt.SigningMethodHS256, []byte(cur), good), true},
		{"valid, previous secret", gzvToken(jwt.SigningMethodHS256, []byte(prev), good), true},
		{"valid HS512, current secret", gzvToken(jwt.SigningMethodHS512, []byte(cur), good), true},
		{"wrong secret", gzvToken(jwt.SigningMethodHS256, []byte(wrong), good), false},
		{"expired", gzvToken(jwt.SigningMethodHS256, []byte(cur), jwt.MapClaims{"iat": now - 7200, "exp": now - 3600, "uid": "42"}), false},
		{"not yet valid", gzvToken(jwt.SigningMethodHS256, []byte(cur), jwt.MapClaims{"nbf": now + 3600, "exp": now + 7200, "uid": "42"}), false},
		{"alg none", gzvToken(jwt.SigningMethodNone, jwt.UnsafeAllowNoneSignatureType, good), false},
		{"missing", "", false},
		{"garbage", "abc.def.ghi", false},
	}
	// single-field mutations of a valid token
	valid := cases[0].token
	parts := strings.Split(valid, ".")
	flip := func(s string) string {
		b := []byte(s)
		if b[len(b)/2] == 'A' {
			b[len(b)/2] = 'B'
		} else {
			b[len(b)/2] = 'A'
		}
		return string(b)
	}
	forged := base64.RawURLEncoding.EncodeToString([]byte(fmt.Sprintf(`{"exp":%d,"iat":%d,"role":"root","uid":"1"}`, now+3600, now-10)))
	cases = append(cases,
		struct {
			name  string
			token string
			ok    bool
		}{"tampered payload", parts[0] + "." + forged + "." + parts[2], false},
		struct {
			name  string
			token string
			ok    bool
		}{"tampered signature", parts[0] + "." + parts[1] + "." + flip(parts[2]), false},
		struct {
			name  string
			token string
			ok    bool
		}{"signature dropped", parts[0] + "." + parts[1] + ".", false},
	)
	for _, c := range cases {
		ran := false
		var seen map[string]any
		h := Authorize(cur, WithPrevSecret(prev))(http.HandlerFunc(func(w http.ResponseWriter, r *http.Request) {
			ran = true
			seen = map[string]any{"uid": r.Context().Value("uid"), "role": r.Context().Value("role"), "exp": r.Context().Value("exp")}
		}))
		req := httptest.NewRequest(http.MethodGet, "http://localhost/protected", http.NoBody)
		if c.token != "" {
			req.Header.Set("Authorization", "Bearer "+c.token)
		}
		rec := httptest.NewRecorder()
		h.ServeHTTP(rec, req)
		if ran != c.ok || (!c.ok && rec.Code != http.StatusUnauthorized) {
			t.Errorf("GZV-REPRODUCED JWT gate, token %q: handler ran=%v status=%d, expected ran=%v%s", c.name, ran, rec.Code, c.ok, map[bool]string{true: "", false: " and 401"}[c.ok])
			return
		}
		if c.ok && (seen["uid"] != "42" || seen["role"] != "admin" || seen["exp"] != nil) {
			t.Errorf("GZV-REPRODUCED JWT gate, token %q: handler saw claims %v, expected uid=42 role=admin and no standard claims", c.name, seen)
			return
		}
	}
	// encrypted bodies: every payload length round-trips
	key := []byte("q4t7w!z%C*F-JaNdRgUjXn2r5u8x/A?D")
	for n := 0; n <= 66; n++ {
		payload := bytes.Repeat([]byte{'x'}, n)
		for i := range payload {
			payload[i] = byte('a' + i%26)
		}
		var got []byte
		h := CryptionHandler(key)(http.HandlerFunc(func(w http.ResponseWriter, r *http.Request) {
			got, _ = io.ReadAll(r.Body)
			_, _ = w.Write(append([]byte("echo:"), got...))
		}))
		body := base64.StdEncoding.EncodeToString(gzvEcb(key, payload, true))
		req := httptest.NewRequest(http.MethodPost, "http://localhost/enc", strings.NewReader(body))
		rec := httptest.NewRecorder()
		h.ServeHTTP(rec, req)
		if rec.Code != http.StatusOK || !bytes.Equal(got, payload) {
			t.Errorf("GZV-REPRODUCED cryption handler, payload of %d bytes: status %d, handler saw %q", n, rec.Code, got)
			return
		}
		raw, err := base64.StdEncoding.DecodeString(rec.Body.String())
		if err != nil || !bytes.Equal(gzvEcb(key, raw, false), append([]byte("echo:"), payload...)) {
			t.Errorf("GZV-REPRODUCED cryption handler, payload of %d bytes: response does not decrypt to the handler's output", n)
			return
		}
	}
}
