package collection

// gzv replay driver for Queue, Ring, SafeMap, Set and Cache (C16). Injected with `go test -overlay`; never part of /repo.
// Oracle = the sequential reference models of the property statement (FIFO, last-n ring, map, set, limited key/value
// store). Deterministic pseudo-random operation sequences (fixed seeds) plus the boundary shapes the contracts talk about
// (sizes 0..4, growth past 2*size, wrap-around, the two SafeMap generations, a cache at its limit).

import (
	"fmt"
	"math/rand"
	"testing"
	"time"
)

func gzvQueue(t *testing.T) bool {
	for size := -1; size <= 4; size++ {
		for seed := int64(0); seed < 40; seed++ {
			rnd := rand.New(rand.NewSource(seed))
			q := NewQueue(size)
			var ref []int
			var ops []string
			next := 0
			for i := 0; i < 60; i++ {
				if rnd.Intn(5) < 3 {
					q.Put(next)
					ref = append(ref, next)
					ops = append(ops, fmt.Sprintf("Put(%d)", next))
					next++
				} else {
					v, ok := q.Take()
					ops = append(ops, "Take")
					if ok != (len(ref) > 0) || (ok && v.(int) != ref[0]) {
						t.Errorf("GZV-REPRODUCED Queue size=%d ops=%v: Take()=(%v,%v), FIFO expects (%v,%v)", size, ops, v, ok, first(ref), len(ref) > 0)
						return false
					}
					if ok {
						ref = ref[1:]
					}
				}
				if q.Empty() != (len(ref) == 0) {
					t.Errorf("GZV-REPRODUCED Queue size=%d ops=%v: Empty()=%v with %d elements queued", size, ops, q.Empty(), len(ref))
					return false
				}
			}
		}
	}
	return true
}

func first(s []int) any {
	if len(s) == 0 {
		return nil
	}
	return s[0]
}

func gzvRing(t *testing.T) bool {
	for n := 1; n <= 5; n++ {
		r := NewRing(n)
		var hist []int
		for i := 0; i < 4*n+3; i++ {
			got := r.Take()
			want := hist
			if len(want) > n {
				want = want[len(want)-n:]
			}
			if fmt.Sprint(got) != fmt.Sprint(toAny(want)) {
				t.Errorf("GZV-REPRODUCED Ring n=%d after %d adds: Take()=%v, expected the last %d in order %v", n, i, got, n, want)
				return false
			}
			r.Add(i)
			hist = append(hist, i)
		}
	}
	return true
}

func toAny(s []int) []any {
	out := make([]any, len(s))
	for i, v := range s {
		out[i] = v
	}
	return out
}

func gzvSafeMap(t *testing.T) bool {
	for seed := int64(0); seed < 30; seed++ {
		rnd := rand.New(rand.NewSource(seed))
		m := NewSafeMap()
		ref := map[int]int{}
		var ops []string
		for i := 0; i < 4000; i++ {
			k := rnd.Intn(3 * copyThreshold / 2)
			switch rnd.Intn(4) {
			case 0, 1:
				m.Set(k, i)
				ref[k] = i
				ops = append(ops, fmt.Sprintf("Set(%d)", k))
			case 2:
				m.Del(k)
				delete(ref, k)
				ops = append(ops, fmt.Sprintf("Del(%d)", k))
			default:
				v, ok := m.Get(k)
				rv, rok := ref[k]
				if ok != rok || (ok && v.(int) != rv) {
					t.Errorf("GZV-REPRODUCED SafeMap seed=%d after %d ops (last %v): Get(%d)=(%v,%v), map expects (%v,%v)", seed, i, tail(ops), k, v, ok, rv, rok)
					return false
				}
			}
			if m.Size() != len(ref) {
				t.Errorf("GZV-REPRODUCED SafeMap seed=%d after %d ops (last %v): Size()=%d, map has %d", seed, i, tail(ops), m.Size(), len(ref))
				return false
			}
		}
		seen := map[int]int{}
		m.Range(func(k, v any) bool { seen[k.(int)] = v.(int); return true })
		if fmt.Sprint(seen) != fmt.Sprint(ref) {
			t.Errorf("GZV-REPRODUCED SafeMap seed=%d: Range saw %d entries, map has %d", seed, len(seen), len(ref))
			return false
		}
	}
	return true
}

// the two-generation paths: more than maxDeletion deletions from the first generation while more than copyThreshold
// entries survive there (writes then go to the second generation), then overwrite / delete / migrate
func gzvSafeMapGenerations(t *testing.T) bool {
	m := NewSafeMap()
	ref := map[int]int{}
	n := maxDeletion + copyThreshold + 500
	for k := 0; k < n; k++ {
		m.Set(k, k)
		ref[k] = k
	}
	for k := 0; k <= maxDeletion+5; k++ {
		m.Del(k)
		delete(ref, k)
	}
	check := func(stage string) bool {
		if m.Size() != len(ref) {
			t.Errorf("GZV-REPRODUCED SafeMap generations (%s): Size()=%d, map has %d", stage, m.Size(), len(ref))
			return false
		}
		for _, k := range []int{0, maxDeletion, maxDeletion + 5, maxDeletion + 6, maxDeletion + 7, n - 1, n, n + 1} {
			v, ok := m.Get(k)
			rv, rok := ref[k]
			if ok != rok || (ok && v.(int) != rv) {
				t.Errorf("GZV-REPRODUCED SafeMap generations (%s): Get(%d)=(%v,%v), map expects (%v,%v)", stage, k, v, ok, rv, rok)
				return false
			}
		}
		return true
	}
	if !check("after the deletions") {
		return false
	}
	a, b := maxDeletion+6, maxDeletion+7
	m.Set(a, -1) // overwrite a key that lives in the first generation
	ref[a] = -1
	m.Set(n, -2) // a new key
	ref[n] = -2
	if !check("after overwriting an old-generation key") {
		return false
	}
	m.Del(a)
	delete(ref, a)
	m.Del(b)
	delete(ref, b)
	if !check("after deleting the overwritten key") {
		return false
	}
	for k := maxDeletion + 8; k < n-10; k++ { // drain the first generation so that it is migrated
		m.Del(k)
		delete(ref, k)
	}
	m.Set(n+1, -3)
	ref[n+1] = -3
	return check("after the migration")
}

func tail(ops []string) []string {
	if len(ops) > 6 {
		return ops[len(ops)-6:]
	}
	return ops
}

func gzvSet(t *testing.T) bool {
	rnd := rand.New(rand.NewSource(5))
	s := NewSet()
	ref := map[int]bool{}
	for i := 0; i < 2000; i++ {
		k := rnd.Intn(20)
		switch rnd.Intn(3) {
		case 0:
			s.AddInt(k)
			ref[k] = true
		case 1:
			s.Remove(k)
			delete(ref, k)
		default:
			if s.Contains(k) != ref[k] {
				t.Errorf("GZV-REPRODUCED Set: Contains(%d)=%v, set expects %v", k, s.Contains(k), ref[k])
				return false
			}
		}
		if s.Count() != len(ref) {
			t.Errorf("GZV-REPRODUCED Set: Count()=%d, set has %d", s.Count(), len(ref))
			return false
		}
	}
	return true
}

func gzvCache(t *testing.T) bool {
	for limit := 1; limit <= 4; limit++ {
		for seed := int64(0); seed < 25; seed++ {
			rnd := rand.New(rand.NewSource(seed))
			c, err := NewCache(time.Hour, WithLimit(limit))
			if err != nil {
				t.Errorf("NewCache: %v", err)
				return false
			}
			ref := map[string]int{}
			var order []string // least recently used first
			touch := func(k string) {
				for i, x := range order {
					if x == k {
						order = append(order[:i], order[i+1:]...)
						break
					}
				}
				order = append(order, k)
			}
			var ops []string
			for i := 0; i < 80; i++ {
				k := fmt.Sprintf("k%d", rnd.Intn(limit+3))
				switch rnd.Intn(4) {
				case 0, 1:
					c.Set(k, i)
					ref[k] = i
					touch(k)
					if len(order) > limit {
						delete(ref, order[0])
						order = order[1:]
					}
					ops = append(ops, "Set "+k)
				case 2:
					c.Del(k)
					delete(ref, k)
					for j, x := range order {
						if x == k {
							order = append(order[:j], order[j+1:]...)
							break
						}
					}
					ops = append(ops, "Del "+k)
				default:
					v, ok := c.Get(k)
					rv, rok := ref[k]
					ops = append(ops, "Get "+k)
					if ok != rok || (ok && v.(int) != rv) {
						t.Errorf("GZV-REPRODUCED Cache limit=%d ops=%v: Get(%s)=(%v,%v), LRU reference expects (%v,%v)", limit, ops, k, v, ok, rv, rok)
						return false
					}
					if ok {
						touch(k)
					}
				}
				if n := c.size(); n != len(ref) || n > limit {
					t.Errorf("GZV-REPRODUCED Cache limit=%d ops=%v: holds %d entries, reference %d (limit %d)", limit, ops, n, len(ref), limit)
					return false
				}
			}
			// loader discipline
			calls := 0
			v, err := c.Take("fresh", func() (any, error) { calls++; return 7, nil })
			v2, _ := c.Take("fresh", func() (any, error) { calls++; return 8, nil })
			if err != nil || v.(int) != 7 || v2.(int) != 7 || calls != 1 {
				t.Errorf("GZV-REPRODUCED Cache Take: values %v,%v loader calls %d, expected 7,7 and one call", v, v2, calls)
				return false
			}
		}
	}
	return true
}

func TestGzvReplayCollections(t *testing.T) {
	_ = gzvQueue(t) && gzvRing(t) && gzvSafeMap(t) && gzvSafeMapGenerations(t) && gzvSet(t) && gzvCache(t)
}
