package mapping

// gzv replay driver for declarative validation (C08). Injected with `go test -overlay`; never part of /repo.
// Oracle = the property statement: an accepted input always satisfies the declared constraints — every supplied numeric
// field lies inside its range (whatever the combination with optional / optional=dep / default / options), every field with
// options holds one of them, and a required field without value is rejected.

import (
	"encoding/json"
	"fmt"
	"math"
	"os"
	"strconv"
	"testing"
)

func gzvEnvF(name string) (float64, bool) {
	v := os.Getenv("GZV_" + name)
	switch v {
	case "":
		return 0, false
	case "NaN", "(_ NaN 11 53)":
		return math.NaN(), true
	case "+oo", "(_ +oo 11 53)":
		return math.Inf(1), true
	case "-oo", "(_ -oo 11 53)":
		return math.Inf(-1), true
	}
	f, err := strconv.ParseFloat(v, 64)
	return f, err == nil
}

func gzvInRange(fv float64, nr *numberRange) bool {
	l := fv > nr.left || (nr.leftInclude && fv == nr.left)
	r := fv < nr.right || (nr.rightInclude && fv == nr.right)
	return l && r
}

func TestGzvReplayMapping(t *testing.T) {
	// 1. validateNumberRange on the solver's input and on the IEEE corner values
	vals := []float64{math.NaN(), math.Inf(1), math.Inf(-1), 0, math.Copysign(0, -1), 1, 5, 0.999999, 5.000001, -1, 1e308, math.SmallestNonzeroFloat64}
	if fv, ok := gzvEnvF("FV"); ok {
		vals = append([]float64{fv}, vals...)
	}
	for _, fv := range vals {
		for _, li := range []bool{true, false} {
			for _, ri := range []bool{true, false} {
				nr := &numberRange{left: 1, leftInclude: li, right: 5, rightInclude: ri}
				if got := validateNumberRange(fv, nr) == nil; got != gzvInRange(fv, nr) {
					t.Errorf("GZV-REPRODUCED validateNumberRange(%v, %s1:5%s) accepted=%v, in range=%v", fv, map[bool]string{true: "[", false: "("}[li], map[bool]string{true: "]", false: ")"}[ri], got, gzvInRange(fv, nr))
					return
				}
			}
		}
	}
	// 2. end to end: range / options survive every way of declaring optionality
	type plain struct {
		A int `json:"a,range=[1:5]"`
	}
	type opt struct {
		A int `json:"a,optional,range=[1:5]"`
	}
	type dep struct {
		A int `json:"a,optional=b,range=[1:5]"`
		B int `json:"b,optional"`
	}
	type ndep struct {
		A int `json:"a,optional=!b,range=[1:5]"`
		B int `json:"b,optional"`
	}
	type def struct {
		A int `json:"a,default=3,range=[1:5]"`
	}
	type optS struct {
		A string `json:"a,optional=b,options=x|y"`
		B int    `json:"b,optional"`
	}
	type optN struct {
		A string `json:"a,optional=!b,options=x|y"`
		B int    `json:"b,optional"`
	}
	type fl struct {
		A float64 `json:"a,range=[1:5)"`
	}
	cases := []struct {
		name string
		mk   func() any
		get  func(any) (float64, string)
	}{
		{"a,range=[1:5]", func() any { return new(plain) }, func(v any) (float64, string) { return float64(v.(*plain).A), "" }},
		{"a,optional,range=[1:5]", func() any { return new(opt) }, func(v any) (float64, string) { return float64(v.(*opt).A), "" }},
		{"a,optional=b,range=[1:5]", func() any { return new(dep) }, func(v any) (float64, string) { return float64(v.(*dep).A), "" }},
		{"a,optional=!b,range=[1:5]", func() any { return new(ndep) }, func(v any) (float64, string) { return float64(v.(*ndep).A), "" }},
		{"a,default=3,range=[1:5]", func() any { return new(def) }, func(v any) (float64, string) { return float64(v.(*def).A), "" }},
		{"a,range=[1:5) float", func() any { return new(fl) }, func(v any) (float64, string) { return v.(*fl).A, "" }},
	}
	for _, c := range cases {
		for _, a := range []string{"0", "1", "3", "5", "6", "100", "-1"} {
			for _, b := range []string{"", `,"b":1`} {
				in := fmt.Sprintf(`{"a":%s%s}`, a, b)
				v := c.mk()
				err := UnmarshalJsonBytes([]byte(in), v)
				if err != nil {
					continue
				}
				got, _ := c.get(v)
				af, _ := strconv.ParseFloat(a, 64)
				hi := got <= 5
				if c.name == "a,range=[1:5) float" {
					hi = got < 5
				}
				if got != af || got < 1 || !hi {
					t.Errorf("GZV-REPRODUCED field `%s`: input %s accepted, field holds %v (declared range violated or value altered)", c.name, in, got)
					return
				}
			}
		}
	}
	for _, mk := range []func() (any, func() string, string){
		func() (any, func() string, string) { v := new(optS); return v, func() string { return v.A }, "a,optional=b,options=x|y" },
		func() (any, func() string, string) { v := new(optN); return v, func() string { return v.A }, "a,optional=!b,options=x|y" },
	} {
		for _, a := range []string{"x", "y", "z", ""} {
			for _, b := range []string{"", `,"b":1`} {
				v, get, name := mk()
				in := fmt.Sprintf(`{"a":%q%s}`, a, b)
				if err := UnmarshalJsonBytes([]byte(in), v); err == nil && get() != "x" && get() != "y" {
					t.Errorf("GZV-REPRODUCED field `%s`: input %s accepted, field holds %q which is not one of the declared options", name, in, get())
					return
				}
			}
		}
	}
	// 3. a required field without a value is rejected
	var p plain
	if err := UnmarshalJsonBytes([]byte(`{}`), &p); err == nil {
		t.Errorf("GZV-REPRODUCED field `a,range=[1:5]`: input {} accepted although the field is required")
	}
	_ = json.Number("")
}
