package internal

// GzvCalculateChanges exposes calculateChanges to the replay driver in package discov (overlay only; never part of /repo).
func GzvCalculateChanges(oldVals, newVals map[string]string) (add, remove []KV) {
	return calculateChanges(oldVals, newVals)
}
