package syncx

// gzv replay driver for the concurrency caps in core/syncx (C05) and SingleFlight (C07). Injected with `go test -overlay`;
// never part of /repo. Oracle = the property statements, on sequential histories (the schedules themselves are not decided
// by this family): never more than n permits out, TryBorrow refuses beyond the cap, Return of more than was borrowed is an
// error and never raises the capacity; a Pool never has more than `limit` resources alive and never hands one resource to
// two users; a single-flight call that has returned (or panicked) leaves nothing behind: the next call runs its own function.

import (
	"fmt"
	"io"
	"math/rand"
	"testing"
	"time"
)

func TestGzvReplayCaps(t *testing.T) {
	// Limit
	for n := 1; n <= 4; n++ {
		for seed := int64(0); seed < 30; seed++ {
			rnd := rand.New(rand.NewSource(seed))
			l := NewLimit(n)
			out := 0
			var ops []string
			for i := 0; i < 40; i++ {
				if rnd.Intn(2) == 0 {
					ok := l.TryBorrow()
					ops = append(ops, "TryBorrow")
					if ok != (out < n) {
						t.Errorf("GZV-REPRODUCED Limit(%d) ops=%v: TryBorrow()=%v with %d permits out", n, ops, ok, out)
						return
					}
					if ok {
						out++
					}
				} else {
					err := l.Return()
					ops = append(ops, "Return")
					if (err != nil) != (out == 0) {
						t.Errorf("GZV-REPRODUCED Limit(%d) ops=%v: Return()=%v with %d permits out", n, ops, err, out)
						return
					}
					if err == nil {
						out--
					}
				}
			}
		}
	}
	// Pool
	for limit := 1; limit <= 3; limit++ {
		for seed := int64(0); seed < 30; seed++ {
			rnd := rand.New(rand.NewSource(seed))
			created, destroyed := 0, 0
			p := NewPool(limit, func() any { created++; return created }, func(any) { destroyed++ }, WithMaxAge(time.Hour))
			held := map[int]bool{}
			var ops []string
			for i := 0; i < 40; i++ {
				if len(held) < limit && rnd.Intn(2) == 0 { // Get would block at the limit: only sequential histories here
					x := p.Get().(int)
					ops = append(ops, fmt.Sprintf("Get=%d", x))
					if held[x] {
						t.Errorf("GZV-REPRODUCED Pool(limit %d) ops=%v: resource %d handed out while still in use", limit, ops, x)
						return
					}
					held[x] = true
				} else if len(held) > 0 {
					for x := range held {
						p.Put(x)
						delete(held, x)
						ops = append(ops, fmt.Sprintf("Put %d", x))
						break
					}
				}
				if created-destroyed > limit {
					t.Errorf("GZV-REPRODUCED Pool(limit %d) ops=%v: %d resources alive", limit, ops, created-destroyed)
					return
				}
			}
		}
	}
	// SingleFlight / LockedCalls: nothing is retained after a call ended, whatever way it ended
	for _, mk := range []func() SingleFlight{NewSingleFlight} {
		g := mk()
		for i, how := range []string{"ok", "error", "panic", "ok"} {
			ran := false
			func() {
				defer func() { _ = recover() }()
				_, _ = g.Do("k", func() (any, error) {
					ran = true
					switch how {
					case "error":
						return nil, fmt.Errorf("boom")
					case "panic":
						panic("boom")
					}
					return i, nil
				})
			}()
			if !ran {
				t.Errorf("GZV-REPRODUCED SingleFlight: call #%d on the key did not run its own function (a finished call was retained)", i)
				return
			}
			v, fresh, err := g.DoEx("k", func() (any, error) { return 100 + i, nil })
			if err != nil || !fresh || v.(int) != 100+i {
				t.Errorf("GZV-REPRODUCED SingleFlight: sequential DoEx after a %s call = (%v, fresh=%v, %v), expected its own fresh result", how, v, fresh, err)
				return
			}
		}
	}
	lc := NewLockedCalls()
	for i := 0; i < 3; i++ {
		v, err := lc.Do("k", func() (any, error) { return i, nil })
		if err != nil || v.(int) != i {
			t.Errorf("GZV-REPRODUCED LockedCalls: sequential call #%d returned (%v,%v), expected its own result", i, v, err)
			return
		}
	}
	rm := NewResourceManager()
	creates := 0
	for i := 0; i < 3; i++ {
		_, err := rm.GetResource("r", func() (io.Closer, error) { creates++; return gzvCloser{}, nil })
		if err != nil {
			t.Errorf("GZV-REPRODUCED ResourceManager: %v", err)
			return
		}
	}
	if creates != 1 {
		t.Errorf("GZV-REPRODUCED ResourceManager: resource created %d times for one key", creates)
	}
}

type gzvCloser struct{}

func (gzvCloser) Close() error { return nil }
