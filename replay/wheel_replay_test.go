package collection

// gzv replay driver for the timing wheel (C12). Injected with `go test -overlay`; never part of /repo.
// Oracle = the property statement: a timer set with delay d at tick T fires exactly once at tick T+max(1,d/interval);
// a moved timer fires at (tick of the move)+d/interval with the value it had; a removed timer never fires; a drained
// wheel forgets its timers; the latest value is delivered.

import (
	"container/list"
	"fmt"
	"math/rand"
	"os"
	"runtime"
	"sort"
	"strconv"
	"sync"
	"testing"
	"time"
)

func gzvEnvInt(name string, def int64) int64 {
	if v, err := strconv.ParseInt(os.Getenv("GZV_"+name), 10, 64); err == nil {
		return v
	}
	return def
}

type gzvFired struct{ k, v any }

type gzvWheel struct {
	tw    *TimingWheel
	mu    sync.Mutex
	fired []gzvFired
}

func gzvNewWheel(n, pos int, interval time.Duration) *gzvWheel {
	w := &gzvWheel{}
	w.tw = &TimingWheel{interval: interval, numSlots: n, slots: make([]*list.List, n), timers: NewSafeMap(), tickedPos: pos}
	w.tw.execute = func(k, v any) {
		w.mu.Lock()
		w.fired = append(w.fired, gzvFired{k, v})
		w.mu.Unlock()
	}
	w.tw.initSlots()
	return w
}

func (w *gzvWheel) keys() map[any]bool {
	out := map[any]bool{}
	w.tw.timers.Range(func(k, v any) bool { out[k] = true; return true })
	return out
}

// tick advances the wheel by one tick and returns the keys that left `timers` (fired, synchronously observable)
func (w *gzvWheel) tick() []string {
	before := w.keys()
	w.tw.onTick()
	after := w.keys()
	var out []string
	for k := range before {
		if !after[k] {
			out = append(out, fmt.Sprint(k))
		}
	}
	sort.Strings(out)
	return out
}

// waitFired waits until n callbacks arrived (they run on other goroutines)
func (w *gzvWheel) waitFired(n int) []gzvFired {
	deadline := time.Now().Add(2 * time.Second)
	for {
		w.mu.Lock()
		if len(w.fired) >= n || time.Now().After(deadline) {
			out := append([]gzvFired(nil), w.fired...)
			w.mu.Unlock()
			return out
		}
		w.mu.Unlock()
		runtime.Gosched()
	}
}

type gzvRef struct {
	due int
	val int
}

// gzvRunSeq runs one operation sequence against the reference model; returns a description of the first disagreement.
func gzvRunSeq(n, pos int, interval time.Duration, ops []string) string {
	w := gzvNewWheel(n, pos, interval)
	ref := map[string]gzvRef{}
	T := 0
	want := 0
	vals := map[string]int{}
	for i, op := range ops {
		var kind, key string
		var d, v int
		fmt.Sscanf(op, "%s %s %d %d", &kind, &key, &d, &v)
		delay := time.Duration(d) * interval / 2 // d counts half intervals so that fractional delays are covered
		steps := int(delay / interval)
		switch kind {
		case "set":
			w.tw.setTask(&timingEntry{baseEntry: baseEntry{delay: delay, key: key}, value: v})
			if steps < 1 {
				steps = 1
			}
			ref[key] = gzvRef{T + steps, v}
		case "move":
			if delay < interval {
				continue // fires at once on another goroutine by design; outside the claim
			}
			w.tw.moveTask(baseEntry{delay: delay, key: key})
			if r, ok := ref[key]; ok {
				ref[key] = gzvRef{T + steps, r.val}
			}
		case "remove":
			w.tw.removeTask(key)
			delete(ref, key)
		case "drain":
			w.tw.drainAll(func(k, v any) {})
			ref = map[string]gzvRef{}
		case "tick":
			T++
			got := w.tick()
			var exp []string
			for k, r := range ref {
				if r.due == T {
					exp = append(exp, k)
					vals[k] = r.val
				}
				if r.due < T {
					return fmt.Sprintf("op#%d tick %d: reference itself overdue for %s", i, T, k)
				}
			}
			sort.Strings(exp)
			if fmt.Sprint(got) != fmt.Sprint(exp) {
				return fmt.Sprintf("at tick %d fired=%v expected=%v", T, got, exp)
			}
			for _, k := range exp {
				delete(ref, k)
			}
			want += len(exp)
			fired := w.waitFired(want)
			if len(fired) != want {
				return fmt.Sprintf("at tick %d callbacks=%d expected=%d", T, len(fired), want)
			}
			for _, f := range fired[want-len(exp):] {
				if vals[fmt.Sprint(f.k)] != f.v.(int) {
					return fmt.Sprintf("at tick %d key %v delivered value %v expected %v", T, f.k, f.v, vals[fmt.Sprint(f.k)])
				}
			}
		}
	}
	return ""
}

func gzvReport(t *testing.T, n, pos int, ops []string, msg string) {
	t.Errorf("GZV-REPRODUCED wheel numSlots=%d tickedPos=%d ops=%q: %s", n, pos, ops, msg)
}

func gzvTicks(k int) []string {
	out := make([]string, k)
	for i := range out {
		out[i] = "tick"
	}
	return out
}

func TestGzvReplayWheel(t *testing.T) {
	interval := time.Second
	// 1. the solver's input (when the model gave one): wheel shape and the delay of the operation under test
	mn, mp, md := int(gzvEnvInt("N", 0)), int(gzvEnvInt("POS", -1)), gzvEnvInt("DELAY", -1)
	mi := gzvEnvInt("INTERVAL", 0)
	if mn >= 1 && mn <= 64 && mp >= 0 && mp < mn && md >= 0 && mi > 0 && md/mi <= 1000 {
		d2 := int(2 * md / mi) // in half intervals
		for s := 2; s <= 2*(3*mn+1); s++ {
			for pre := 0; pre < s/2 && pre < 4; pre++ {
				for _, kind := range []string{"move", "set"} {
					ops := []string{fmt.Sprintf("set k %d 1", s)}
					ops = append(ops, gzvTicks(pre)...)
					ops = append(ops, fmt.Sprintf("%s k %d 2", kind, d2))
					ops = append(ops, gzvTicks(d2/2+2*mn+2)...)
					if msg := gzvRunSeq(mn, mp, interval, ops); msg != "" {
						gzvReport(t, mn, mp, ops, "(from the solver's model) "+msg)
						return
					}
				}
			}
		}
	}
	// 2. exhaustive small grid: set, some ticks, then move / set again / remove / drain+set
	for n := 1; n <= 5; n++ {
		for p := 0; p < n; p++ {
			for s := 1; s <= 2*(2*n+1); s++ {
				for pre := 0; pre <= 3 && 2*pre < s; pre++ {
					for m := 2; m <= 2*(2*n+2); m++ {
						for _, kind := range []string{"move", "set"} {
							ops := []string{fmt.Sprintf("set k %d 1", s)}
							ops = append(ops, gzvTicks(pre)...)
							ops = append(ops, fmt.Sprintf("%s k %d 2", kind, m))
							ops = append(ops, gzvTicks(m/2+2*n+2)...)
							if msg := gzvRunSeq(n, p, interval, ops); msg != "" {
								gzvReport(t, n, p, ops, msg)
								return
							}
						}
					}
					for _, mid := range []string{"remove k 0 0", "drain _ 0 0"} {
						ops := []string{fmt.Sprintf("set k %d 1", s)}
						ops = append(ops, gzvTicks(pre)...)
						ops = append(ops, mid, "set j 3 7")
						ops = append(ops, gzvTicks(s/2+2*n+2)...)
						ops = append(ops, fmt.Sprintf("set k %d 3", s))
						ops = append(ops, gzvTicks(s/2+2*n+2)...)
						if msg := gzvRunSeq(n, p, interval, ops); msg != "" {
							gzvReport(t, n, p, ops, msg)
							return
						}
					}
				}
			}
		}
	}
	// 3. pseudo-random multi-key histories (fixed seed)
	rnd := rand.New(rand.NewSource(12))
	keys := []string{"a", "b", "c"}
	for it := 0; it < 4000; it++ {
		n := 1 + rnd.Intn(5)
		p := rnd.Intn(n)
		var ops []string
		for j := 0; j < 40; j++ {
			k := keys[rnd.Intn(len(keys))]
			switch r := rnd.Intn(10); {
			case r < 3:
				ops = append(ops, fmt.Sprintf("set %s %d %d", k, 1+rnd.Intn(6*n+2), j))
			case r < 5:
				ops = append(ops, fmt.Sprintf("move %s %d 0", k, 2+rnd.Intn(6*n+2)))
			case r < 6:
				ops = append(ops, fmt.Sprintf("remove %s 0 0", k))
			case r == 6 && rnd.Intn(4) == 0:
				ops = append(ops, "drain _ 0 0")
			default:
				ops = append(ops, "tick")
			}
		}
		ops = append(ops, gzvTicks(4*n+6)...)
		if msg := gzvRunSeq(n, p, interval, ops); msg != "" {
			gzvReport(t, n, p, ops, msg)
			return
		}
	}
}
