package router

// gzv bounded check + replay driver for the route tree (C09). Injected with `go test -overlay`; never part of /repo.
// BOUNDED, not a proof: every route table with up to GZV_ROUTES routes (default 3 quick) over the segment alphabet
// {a, b, :v<depth>} with 1..3 segments (plus the root pattern), every registration order, routes spread over GET/POST,
// and every request path with up to 3 segments over {a, b, c} plus "/" and a few paths that need cleaning, is run through
// the real router (Handle + ServeHTTP) and compared with the reference matcher written from the property statement.

import (
	"fmt"
	"net/http"
	"net/http/httptest"
	"os"
	"path"
	"sort"
	"strconv"
	"strings"
	"testing"

	"github.com/zeromicro/go-zero/rest/pathvar"
)

type gzvRoute struct {
	method string
	pat    string
	id     int
}

func gzvSegs(p string) []string {
	p = path.Clean(p)
	return strings.Split(p[1:], "/") // "/" -> [""]
}

// reference: does pattern match path, and with which bindings
func gzvRefMatch(pat, reqPath string) (map[string]string, bool) {
	ps, rs := gzvSegs(pat), gzvSegs(reqPath)
	if len(ps) != len(rs) {
		return nil, false
	}
	vars := map[string]string{}
	for i := range ps {
		if strings.HasPrefix(ps[i], ":") {
			vars[ps[i][1:]] = rs[i]
		} else if ps[i] != rs[i] {
			return nil, false
		}
	}
	return vars, true
}

// reference choice: among the matching routes prefer a literal over a variable at the first segment where they differ
func gzvRefChoose(routes []gzvRoute, method, reqPath string) (*gzvRoute, map[string]string) {
	var best *gzvRoute
	var bestVars map[string]string
	for i := range routes {
		r := &routes[i]
		if r.method != method {
			continue
		}
		vars, ok := gzvRefMatch(r.pat, reqPath)
		if !ok {
			continue
		}
		if best == nil {
			best, bestVars = r, vars
			continue
		}
		bs, cs := gzvSegs(best.pat), gzvSegs(r.pat)
		for k := range bs {
			if bs[k] != cs[k] {
				if strings.HasPrefix(bs[k], ":") && !strings.HasPrefix(cs[k], ":") {
					best, bestVars = r, vars
				}
				break
			}
		}
	}
	return best, bestVars
}

// gzvCheckTable registers the routes in order on a fresh router and compares every request with the reference.
func gzvCheckTable(routes []gzvRoute, paths []string) string {
	rt := NewRouter()
	hit, gotVars := -1, map[string]string(nil)
	seen := map[string]bool{}
	for i := range routes {
		r := routes[i]
		id := r.id
		err := rt.Handle(r.method, r.pat, http.HandlerFunc(func(w http.ResponseWriter, req *http.Request) {
			hit = id
			gotVars = pathvar.Vars(req)
		}))
		key := r.method + " " + path.Clean(r.pat)
		if seen[key] != (err != nil) {
			return fmt.Sprintf("registering %s %s (#%d): error=%v, duplicate=%v", r.method, r.pat, i, err, seen[key])
		}
		seen[key] = true
	}
	for _, m := range []string{http.MethodGet, http.MethodPost} {
		for _, p := range paths {
			hit, gotVars = -1, nil
			req := httptest.NewRequest(m, "http://x"+p, nil)
			rec := httptest.NewRecorder()
			rt.ServeHTTP(rec, req)
			want, wantVars := gzvRefChoose(routes, m, p)
			if want != nil {
				if hit != want.id {
					return fmt.Sprintf("%s %s: handler #%d ran (status %d), expected #%d (%s)", m, p, hit, rec.Code, want.id, want.pat)
				}
				if len(wantVars) != len(gotVars) {
					return fmt.Sprintf("%s %s: vars %v, expected %v", m, p, gotVars, wantVars)
				}
				for k, v := range wantVars {
					if gv, ok := gotVars[k]; !ok || gv != v {
						return fmt.Sprintf("%s %s: vars %v, expected %v", m, p, gotVars, wantVars)
					}
				}
				continue
			}
			if hit != -1 {
				return fmt.Sprintf("%s %s: handler #%d ran although no route of that method matches", m, p, hit)
			}
			other := http.MethodPost
			if m == http.MethodPost {
				other = http.MethodGet
			}
			if o, _ := gzvRefChoose(routes, other, p); o != nil {
				if rec.Code != http.StatusMethodNotAllowed || rec.Header().Get("Allow") != other {
					return fmt.Sprintf("%s %s: status %d Allow=%q, expected 405 Allow=%q", m, p, rec.Code, rec.Header().Get("Allow"), other)
				}
			} else if rec.Code != http.StatusNotFound {
				return fmt.Sprintf("%s %s: status %d, expected 404", m, p, rec.Code)
			}
		}
	}
	return ""
}

func gzvPatterns() []string {
	pats := []string{"/"}
	alpha := func(depth int) []string { return []string{"a", "b", ":v" + strconv.Itoa(depth)} }
	var rec func(prefix string, depth int)
	rec = func(prefix string, depth int) {
		if depth > 3 {
			return
		}
		for _, s := range alpha(depth) {
			p := prefix + "/" + s
			pats = append(pats, p)
			rec(p, depth+1)
		}
	}
	rec("", 1)
	return pats
}

func gzvPaths() []string {
	paths := []string{"/", "//", "/a/", "/a/../b", "/./a/b", "/a//b/c"}
	var rec func(prefix string, depth int)
	rec = func(prefix string, depth int) {
		if depth > 3 {
			return
		}
		for _, s := range []string{"a", "b", "c"} {
			p := prefix + "/" + s
			paths = append(paths, p)
			rec(p, depth+1)
		}
	}
	rec("", 1)
	return paths
}

func TestGzvBoundedRouter(t *testing.T) {
	maxRoutes := 3
	if v, err := strconv.Atoi(os.Getenv("GZV_ROUTES")); err == nil && v > 0 {
		maxRoutes = v
	}
	stride := 1 // thorough: every table; quick: every table of size <= 2 and a fixed stride of the triples
	if os.Getenv("GZV_TIER") != "thorough" {
		stride = 31
	}
	pats, paths := gzvPatterns(), gzvPaths()
	tables, n := 0, 0
	var rec func(cur []gzvRoute)
	fail := ""
	rec = func(cur []gzvRoute) {
		if fail != "" {
			return
		}
		if len(cur) > 0 {
			n++
			if len(cur) <= 2 || n%stride == 0 {
				tables++
				if msg := gzvCheckTable(cur, paths); msg != "" {
					var desc []string
					for _, r := range cur {
						desc = append(desc, r.method+" "+r.pat)
					}
					fail = fmt.Sprintf("routes registered in this order %q: %s", desc, msg)
					return
				}
			}
		}
		if len(cur) == maxRoutes {
			return
		}
		for _, p := range pats {
			for _, m := range []string{http.MethodGet, http.MethodPost} {
				dup := false
				for _, r := range cur {
					if r.pat == p && r.method == m {
						dup = true
					}
				}
				if dup && len(cur) != 1 {
					continue // duplicates are exercised for tables of two
				}
				if m == http.MethodPost && len(cur) == 0 {
					continue // symmetry: the first route is a GET
				}
				rec(append(append([]gzvRoute(nil), cur...), gzvRoute{m, p, len(cur)}))
			}
		}
	}
	rec(nil)
	// registration rejections
	rt := NewRouter()
	if err := rt.Handle("FETCH", "/a", http.NotFoundHandler()); err != ErrInvalidMethod {
		fail = fmt.Sprintf("Handle(FETCH, /a) = %v, expected ErrInvalidMethod", err)
	}
	if err := rt.Handle(http.MethodGet, "a", http.NotFoundHandler()); err != ErrInvalidPath {
		fail = fmt.Sprintf("Handle(GET, a) = %v, expected ErrInvalidPath", err)
	}
	var keys []string
	keys = append(keys, fmt.Sprintf("patterns=%d paths=%d tables=%d maxRoutes=%d stride=%d", len(pats), len(paths), tables, maxRoutes, stride))
	sort.Strings(keys)
	t.Log("GZV-BOUNDED ", keys[0])
	if fail != "" {
		t.Errorf("GZV-REPRODUCED %s", fail)
	}
}
