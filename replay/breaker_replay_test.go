package breaker

// gzv replay driver for the circuit breaker (C01). Injected with `go test -overlay` together with a virtual clock that
// replaces core/timex/relativetime.go for this run only; never part of /repo.
// Oracle = the property statement: a call is rejected only when, among the calls of the preceding 10 s, the non-accepted
// ones exceed 5 + 10 % of the accepted ones; a rejected call never runs the request and runs the fallback once; an
// admitted call runs the request once, returns its error unchanged and is recorded once as success or failure (a panic
// counts as failure and is re-raised); while throttling, a call arriving more than 1 s after the previous throttled
// admission is admitted; sustained total failure makes the breaker reject the overwhelming majority.

import (
	"errors"
	"fmt"
	"testing"
	"time"

	"github.com/zeromicro/go-zero/core/timex"
)

type gzvRec struct {
	at      time.Duration
	success bool // recorded as accepted
}

func TestGzvReplayBreaker(t *testing.T) {
	errBad := errors.New("unacceptable")
	errOK := errors.New("acceptable")
	acceptable := func(err error) bool { return err == nil || err == errOK }
	base := 3000 * time.Hour
	for _, plan := range [][]string{
		{"ok*50", "+11000", "bad*5", "ok*3", "panic*2", "bad*30"},
		{"bad*5", "ok", "bad", "bad", "bad", "+300", "bad*40", "+1001", "bad*3"},
		{"ok*100", "bad*14", "bad*3", "+9999", "bad*5", "+2", "bad*20"},
		{"bad*4", "panic*1", "okerr*3", "bad*1", "bad*1", "+10001", "bad*6"},
		{"bad*200", "+1500", "bad*5", "+25000", "bad*5", "ok*2", "bad*3"},
		{"ok*7", "+250", "bad*6", "+250", "ok*2", "+250", "bad*9", "+9300", "bad*4"},
		{"bad*300", "+400", "bad*3", "+400", "bad*3", "+400", "bad*3", "+400", "bad*3", "+400", "bad*3", "+400", "bad*3"},
		{"bad*300", "+999", "bad*2", "+2", "bad*2", "+1000", "bad*2", "+1", "bad*2"},
	} {
		now := base
		timex.SetVirtualNow(now)
		b := newGoogleBreaker()
		var hist []gzvRec
		var trace []string
		lastThrottledPass := time.Duration(0)
		step := func(kind string) bool {
			// reference view of the last 10 s (bucket granularity 250 ms: a record leaves with its bucket)
			var total, accepts int64
			for _, r := range hist {
				if now-r.at < 10*time.Second {
					total++
					if r.success {
						accepts++
					}
				}
			}
			reqRuns, fbRuns := 0, 0
			var want error
			req := func() error {
				reqRuns++
				switch kind {
				case "bad":
					want = errBad
				case "okerr":
					want = errOK
				case "panic":
					panic("boom")
				}
				return want
			}
			fb := func(err error) error { fbRuns++; return err }
			before := b.history()
			var err error
			panicked := func() (p any) {
				defer func() { p = recover() }()
				err = b.doReq(req, fb, acceptable)
				return nil
			}()
			after := b.history()
			in := fmt.Sprintf("history %v, then %s at +%v (last 10 s: total=%d accepted=%d)", trace, kind, now-base, total, accepts)
			rejected := reqRuns == 0
			if rejected {
				if !errors.Is(err, ErrServiceUnavailable) || fbRuns != 1 || panicked != nil {
					t.Errorf("GZV-REPRODUCED breaker %s: rejected call: err=%v fallback runs=%d", in, err, fbRuns)
					return false
				}
				// admission law on the exact window the breaker itself sees (its buckets), and on the reference window
				if !(10*(before.total-5) > 11*before.accepts) {
					t.Errorf("GZV-REPRODUCED breaker %s: rejected although non-accepted (%d) do not exceed 5 + 10%% of accepted (%d)", in, before.total-before.accepts, before.accepts)
					return false
				}
				if lastThrottledPass > 0 && now-lastThrottledPass > time.Second {
					t.Errorf("GZV-REPRODUCED breaker %s: rejected although the previous throttled admission was %v ago (> 1 s)", in, now-lastThrottledPass)
					return false
				}
				hist = append(hist, gzvRec{now, false})
			} else {
				if reqRuns != 1 || fbRuns != 0 {
					t.Errorf("GZV-REPRODUCED breaker %s: admitted call ran the request %d times and the fallback %d times", in, reqRuns, fbRuns)
					return false
				}
				if kind == "panic" && panicked == nil {
					t.Errorf("GZV-REPRODUCED breaker %s: the request's panic was swallowed", in)
					return false
				}
				if kind != "panic" && err != want {
					t.Errorf("GZV-REPRODUCED breaker %s: returned %v, the request returned %v", in, err, want)
					return false
				}
				succ := kind == "ok" || kind == "okerr"
				hist = append(hist, gzvRec{now, succ})
				// "throttled admission": admitted while the breaker was throttling (its own weighting of the accepted calls)
				w := b.k - (b.k-minK)*float64(before.failingBuckets)/buckets
				if w < minK {
					w = minK
				}
				if float64(before.total-5)-w*float64(before.accepts) > 0 {
					lastThrottledPass = now
				}
				// recorded exactly once, on the right side (no bucket expired in between: the clock did not move)
				ds, dt := after.accepts-before.accepts, after.total-before.total
				if dt != 1 || (succ && ds != 1) || (!succ && ds != 0) {
					t.Errorf("GZV-REPRODUCED breaker %s: recorded total+%d accepted+%d, expected total+1 accepted+%d", in, dt, ds, map[bool]int{true: 1, false: 0}[succ])
					return false
				}
			}
			if rejected {
				if dt := after.total - before.total; dt != 1 || after.accepts != before.accepts {
					t.Errorf("GZV-REPRODUCED breaker %s: a rejection must be recorded once as non-accepted (total+%d accepted+%d)", in, dt, after.accepts-before.accepts)
					return false
				}
			}
			// the breaker's own window must agree with the reference window up to the bucket the oldest records are leaving with
			if after.total > int64(len(hist)) {
				t.Errorf("GZV-REPRODUCED breaker %s: window reports %d calls, only %d happened", in, after.total, len(hist))
				return false
			}
			var ref10 int64
			for _, r := range hist {
				if now-r.at < 10*time.Second-250*time.Millisecond {
					ref10++
				}
			}
			if after.total < ref10 {
				t.Errorf("GZV-REPRODUCED breaker %s: window reports %d calls, but %d calls happened within the last 9.75 s (records lost)", in, after.total, ref10)
				return false
			}
			return true
		}
		for _, item := range plan {
			var kind string
			n := 1
			if item[0] == '+' {
				var ms int
				fmt.Sscanf(item, "+%d", &ms)
				now += time.Duration(ms) * time.Millisecond
				timex.SetVirtualNow(now)
				trace = append(trace, item+"ms")
				continue
			}
			if i := indexByte(item, '*'); i >= 0 {
				kind = item[:i]
				fmt.Sscanf(item[i+1:], "%d", &n)
			} else {
				kind = item
			}
			for j := 0; j < n; j++ {
				if !step(kind) {
					return
				}
			}
			trace = append(trace, item)
		}
	}
	// sustained total failure: the overwhelming majority is rejected
	now := base
	timex.SetVirtualNow(now)
	b := newGoogleBreaker()
	rejected := 0
	for i := 0; i < 3000; i++ {
		ran := false
		_ = b.doReq(func() error { ran = true; return errBad }, nil, acceptable)
		if !ran {
			rejected++
		}
	}
	if rejected < 2400 {
		t.Errorf("GZV-REPRODUCED breaker under sustained total failure (3000 failing calls at one instant): only %d rejected", rejected)
	}
}

func indexByte(s string, c byte) int {
	for i := 0; i < len(s); i++ {
		if s[i] == c {
			return i
		}
	}
	return -1
}
