package conf

// gzv bounded stand-in + replay driver for configuration loading (C17). Injected with `go test -overlay`; never part of /repo.
// BOUNDED, not a proof: the part of C17 no contract on this code can carry — the three formats give the same result and
// that result agrees with encoding/json — is checked on a generated family of documents: a fixed set of target types
// (nested structs, pointers, slices of structs, maps of structs, maps of slices of structs, maps of maps, slices of
// pointers) x pseudo-random values x random key capitalisation (keys are matched case-insensitively, map keys are kept).
// Each document is rendered to JSON, YAML and TOML by the encoders of the respective libraries and loaded through
// LoadFromJsonBytes / LoadFromYamlBytes / LoadFromTomlBytes; the JSON rendering is also decoded by encoding/json.

import (
	"encoding/json"
	"fmt"
	"math/rand"
	"reflect"
	"strings"
	"testing"

	"github.com/pelletier/go-toml/v2"
	"github.com/zeromicro/go-zero/core/mapping"
	"gopkg.in/yaml.v2"
)

type gzvInner struct {
	Name string   `json:"name"`
	Port int      `json:"port"`
	Tags []string `json:"tags,optional"`
}

type gzvDoc struct {
	Name string                    `json:"name"`
	Num  int64                     `json:"num"`
	F    float64                   `json:"f"`
	B    bool                      `json:"b"`
	In   gzvInner                  `json:"in"`
	PIn  *gzvInner                 `json:"pin,optional"`
	List []gzvInner                `json:"list,optional"`
	M    map[string]gzvInner       `json:"m,optional"`
	MS   map[string][]gzvInner     `json:"ms,optional"`
	MM   map[string]map[string]int `json:"mm,optional"`
	Ints []int                     `json:"ints,optional"`
	LL   [][]int                   `json:"ll,optional"`
	Grid [][]gzvInner              `json:"grid,optional"`
}

func gzvCaseKey(rnd *rand.Rand, k string) string {
	switch rnd.Intn(3) {
	case 0:
		return strings.ToUpper(k[:1]) + k[1:]
	case 1:
		return strings.ToUpper(k)
	}
	return k
}

func gzvInnerDoc(rnd *rand.Rand, i int) map[string]any {
	m := map[string]any{gzvCaseKey(rnd, "name"): fmt.Sprintf("svc-%d", rnd.Intn(100)), gzvCaseKey(rnd, "port"): 1000 + rnd.Intn(9000) + i}
	if rnd.Intn(2) == 0 {
		m[gzvCaseKey(rnd, "tags")] = []any{"a", fmt.Sprintf("t%d", rnd.Intn(9))}
	}
	return m
}

func gzvGenDoc(rnd *rand.Rand) map[string]any {
	d := map[string]any{
		gzvCaseKey(rnd, "name"): fmt.Sprintf("doc %d", rnd.Intn(1000)),
		gzvCaseKey(rnd, "num"):  rnd.Int63n(1 << 40),
		gzvCaseKey(rnd, "f"):    float64(rnd.Intn(1000)) + 0.25,
		gzvCaseKey(rnd, "b"):    rnd.Intn(2) == 0,
		gzvCaseKey(rnd, "in"):   gzvInnerDoc(rnd, 0),
	}
	if rnd.Intn(2) == 0 {
		d[gzvCaseKey(rnd, "pin")] = gzvInnerDoc(rnd, 1)
	}
	if rnd.Intn(2) == 0 {
		var l []any
		for i := 0; i < 1+rnd.Intn(3); i++ {
			l = append(l, gzvInnerDoc(rnd, i))
		}
		d[gzvCaseKey(rnd, "list")] = l
	}
	if rnd.Intn(2) == 0 {
		d[gzvCaseKey(rnd, "m")] = map[string]any{"/Api/V1": gzvInnerDoc(rnd, 2), "plain": gzvInnerDoc(rnd, 3)}
	}
	if rnd.Intn(2) == 0 {
		d[gzvCaseKey(rnd, "ms")] = map[string]any{"Route-A": []any{gzvInnerDoc(rnd, 4), gzvInnerDoc(rnd, 5)}, "b": []any{gzvInnerDoc(rnd, 6)}}
	}
	if rnd.Intn(2) == 0 {
		d[gzvCaseKey(rnd, "mm")] = map[string]any{"Outer": map[string]any{"Inner": rnd.Intn(50), "x": 1}, "o2": map[string]any{"y": 2}}
	}
	if rnd.Intn(2) == 0 {
		d[gzvCaseKey(rnd, "ints")] = []any{rnd.Intn(9), rnd.Intn(9), rnd.Intn(9)}
	}
	if rnd.Intn(2) == 0 {
		d[gzvCaseKey(rnd, "ll")] = []any{[]any{1, 2}, []any{rnd.Intn(9)}}
	}
	if rnd.Intn(2) == 0 {
		d[gzvCaseKey(rnd, "grid")] = []any{[]any{gzvInnerDoc(rnd, 7), gzvInnerDoc(rnd, 8)}, []any{gzvInnerDoc(rnd, 9)}}
	}
	return d
}

func TestGzvBoundedConf(t *testing.T) {
	docs := 300
	for seed := int64(0); seed < int64(docs); seed++ {
		rnd := rand.New(rand.NewSource(seed))
		doc := gzvGenDoc(rnd)
		jb, err := json.Marshal(doc)
		if err != nil {
			t.Fatal(err)
		}
		yb, err := yaml.Marshal(doc)
		if err != nil {
			t.Fatal(err)
		}
		tb, err := toml.Marshal(doc)
		if err != nil {
			t.Fatal(err)
		}
		var vj, vy, vt, ve gzvDoc
		ej, ey, et := LoadFromJsonBytes(jb, &vj), LoadFromYamlBytes(yb, &vy), LoadFromTomlBytes(tb, &vt)
		if ej != nil || ey != nil || et != nil {
			t.Errorf("GZV-REPRODUCED config document %s: JSON err=%v, YAML err=%v, TOML err=%v (a valid document must load in every format)", jb, ej, ey, et)
			return
		}
		if !reflect.DeepEqual(vj, vy) || !reflect.DeepEqual(vj, vt) {
			t.Errorf("GZV-REPRODUCED config document %s: the formats disagree: JSON %+v YAML %+v TOML %+v", jb, vj, vy, vt)
			return
		}
		if err := json.Unmarshal(jb, &ve); err != nil {
			t.Fatal(err)
		}
		if !reflect.DeepEqual(vj, ve) {
			t.Errorf("GZV-REPRODUCED config document %s: LoadFromJsonBytes gives %+v, encoding/json gives %+v", jb, vj, ve)
			return
		}
	}
	// plain-tag types through mapping.UnmarshalJsonBytes vs encoding/json, including nulls inside arrays and nested objects
	type node struct {
		Name  string `json:"name"`
		Port  int    `json:"port"`
		Child *node  `json:"child,optional"`
	}
	type plain struct {
		Name   string           `json:"name"`
		Port   int              `json:"port"`
		End    node             `json:"end"`
		PInts  []*int           `json:"pints"`
		PP     [][]*int         `json:"pp"`
		PS     []*string        `json:"ps"`
		Nodes  []*node          `json:"nodes"`
		ByName map[string]*node `json:"byName"`
	}
	for _, in := range []string{
		`{"name":"svc","port":80,"end":{"name":"e","port":8080},"pints":[1,null,3],"pp":[[1,null,2],[null,4]],"ps":["a",null,"c"],"nodes":[{"name":"n1","port":1},null,{"name":"n3","port":3,"child":{"name":"c","port":9}}],"byName":{"A":{"name":"a","port":1},"b":{"name":"b","port":2}}}`,
		`{"name":"svc","port":80,"end":{"name":"e","port":8080},"pints":[],"pp":[],"ps":[],"nodes":[],"byName":{}}`,
	} {
		var a, b plain
		ea, eb := mapping.UnmarshalJsonBytes([]byte(in), &a), json.Unmarshal([]byte(in), &b)
		if ea != nil || eb != nil {
			t.Errorf("GZV-REPRODUCED document %s: mapping err=%v, encoding/json err=%v (both must accept it)", in, ea, eb)
			return
		}
		if !reflect.DeepEqual(a, b) {
			ja, _ := json.Marshal(a)
			jb, _ := json.Marshal(b)
			t.Errorf("GZV-REPRODUCED document %s: mapping.UnmarshalJsonBytes gives %s, encoding/json gives %s", in, ja, jb)
			return
		}
	}
	// a nested object must not pick up keys of the enclosing object (encoding/json does not)
	var p1, p2 plain
	in := `{"name":"svc","port":80,"end":{"port":8080},"pints":[],"pp":[],"ps":[],"nodes":[],"byName":{}}`
	e1, e2 := mapping.UnmarshalJsonBytes([]byte(in), &p1), json.Unmarshal([]byte(in), &p2)
	if e1 == nil && e2 == nil && !reflect.DeepEqual(p1, p2) {
		t.Errorf("GZV-REPRODUCED document %s: mapping.UnmarshalJsonBytes gives end.name=%q, encoding/json gives %q", in, p1.End.Name, p2.End.Name)
		return
	}
	t.Logf("GZV-BOUNDED %d generated documents x 3 formats + encoding/json, 3 fixed plain-tag documents", docs)
}

// an array whose elements are ALL null: encoding/json keeps the elements ([nil, nil]); go-zero's decoder leaves the slice
// unset (known finding F15; the repository's own tests pin that behaviour)
func TestGzvBoundedConfAllNullArray(t *testing.T) {
	type plain struct {
		Name  string `json:"name"`
		PInts []*int `json:"pints"`
	}
	in := `{"name":"svc","pints":[null,null]}`
	var a, b plain
	ea, eb := mapping.UnmarshalJsonBytes([]byte(in), &a), json.Unmarshal([]byte(in), &b)
	if ea != nil || eb != nil {
		t.Errorf("GZV-REPRODUCED document %s: mapping err=%v, encoding/json err=%v", in, ea, eb)
		return
	}
	if !reflect.DeepEqual(a, b) {
		t.Errorf("GZV-REPRODUCED all-null array: document %s: mapping.UnmarshalJsonBytes gives len(pints)=%d, encoding/json gives len(pints)=%d", in, len(a.PInts), len(b.PInts))
	}
	t.Log("GZV-BOUNDED one document")
}
