package collection

// gzv replay driver for RollingWindow (C16, C01, C02). Injected with `go test -overlay` together with a virtual clock that
// replaces core/timex/relativetime.go for this run only; never part of /repo.
// Oracle = the property statement: Reduce visits exactly the values added during the last `size` intervals (the running one
// excluded when so configured), for every history of Add/Reduce with arbitrary time gaps.

import (
	"fmt"
	"os"
	"strconv"
	"testing"
	"time"

	"github.com/zeromicro/go-zero/core/timex"
)

func gzvEnvI(name string, def int64) int64 {
	if v, err := strconv.ParseInt(os.Getenv("GZV_"+name), 10, 64); err == nil {
		return v
	}
	return def
}

type gzvAdd struct {
	epoch int64
	v     float64
}

// one step from an arbitrary (well-formed) representation state: span and updateOffset against their index-level meaning
func gzvWindowStep(t *testing.T, size int, interval, lastTime, now time.Duration, offset int) bool {
	rw := NewRollingWindow[float64, *Bucket[float64]](func() *Bucket[float64] { return new(Bucket[float64]) }, size, interval)
	rw.offset = offset
	rw.lastTime = lastTime
	for i := 0; i < size; i++ {
		rw.win.buckets[i].Sum = float64(100 + i)
		rw.win.buckets[i].Count = 1
	}
	timex.SetVirtualNow(now)
	want := int((now - lastTime) / interval)
	if want < 0 || want >= size {
		want = size
	}
	if got := rw.span(); got != want {
		t.Errorf("GZV-REPRODUCED RollingWindow size=%d interval=%d lastTime=%d now=%d offset=%d: span()=%d, expected %d", size, interval, lastTime, now, offset, got, want)
		return false
	}
	rw.updateOffset()
	if want > 0 {
		if rw.offset != (offset+want)%size {
			t.Errorf("GZV-REPRODUCED RollingWindow size=%d interval=%d lastTime=%d now=%d offset=%d: after updateOffset offset=%d, expected %d", size, interval, lastTime, now, offset, rw.offset, (offset+want)%size)
			return false
		}
		for k := 1; k <= size; k++ {
			i := (offset + k) % size
			reset := k <= want
			if isReset := rw.win.buckets[i].Count == 0 && rw.win.buckets[i].Sum == 0; isReset != reset {
				t.Errorf("GZV-REPRODUCED RollingWindow size=%d interval=%d lastTime=%d now=%d offset=%d: bucket %d reset=%v, expected %v (span %d)", size, interval, lastTime, now, offset, i, isReset, reset, want)
				return false
			}
		}
		if lastTime <= now {
			if exp := lastTime + interval*((now-lastTime)/interval); rw.lastTime != exp {
				t.Errorf("GZV-REPRODUCED RollingWindow size=%d interval=%d lastTime=%d now=%d offset=%d: lastTime=%d after updateOffset, expected %d (on the interval grid)", size, interval, lastTime, now, offset, rw.lastTime, exp)
				return false
			}
		}
	}
	return true
}

// a history of Add/Reduce with time gaps against the epoch reference
func gzvWindowHistory(t *testing.T, size int, ignoreCurrent bool, gaps []int64) bool {
	interval := 10 * time.Millisecond
	t0 := 5000 * time.Hour
	timex.SetVirtualNow(t0)
	var opts []RollingWindowOption[float64, *Bucket[float64]]
	if ignoreCurrent {
		opts = append(opts, IgnoreCurrentBucket[float64, *Bucket[float64]]())
	}
	rw := NewRollingWindow[float64, *Bucket[float64]](func() *Bucket[float64] { return new(Bucket[float64]) }, size, interval, opts...)
	now := t0
	var adds []gzvAdd
	for step, g := range gaps {
		now += time.Duration(g) * time.Millisecond
		timex.SetVirtualNow(now)
		E := int64((now - t0) / interval)
		if step%2 == 0 {
			v := float64(step + 1)
			rw.Add(v)
			adds = append(adds, gzvAdd{E, v})
		}
		var sum float64
		var cnt int64
		rw.Reduce(func(b *Bucket[float64]) { sum += b.Sum; cnt += b.Count })
		var wsum float64
		var wcnt int64
		for _, a := range adds {
			if a.epoch > E-int64(size) && a.epoch <= E && !(ignoreCurrent && a.epoch == E) {
				wsum += a.v
				wcnt++
			}
		}
		if sum != wsum || cnt != wcnt {
			t.Errorf("GZV-REPRODUCED RollingWindow size=%d interval=10ms ignoreCurrent=%v gaps(ms)=%v step %d: Reduce saw sum=%v count=%d, the last %d intervals hold sum=%v count=%d", size, ignoreCurrent, gaps[:step+1], step, sum, cnt, size, wsum, wcnt)
			return false
		}
	}
	return true
}

func TestGzvReplayWindow(t *testing.T) {
	// 1. the solver's input, when the model gave one
	ms, mi, ml, mn, mo := gzvEnvI("SIZE", 0), gzvEnvI("INTERVAL", 0), gzvEnvI("LASTTIME", -1), gzvEnvI("NOW", -1), gzvEnvI("OFFSET", -1)
	if ms >= 1 && ms <= 64 && mi > 0 && ml >= 0 && mn >= 0 && mo >= 0 && mo < ms {
		if !gzvWindowStep(t, int(ms), time.Duration(mi), time.Duration(ml), time.Duration(mn), int(mo)) {
			return
		}
	}
	// 2. single steps over a grid of representation states
	for size := 1; size <= 5; size++ {
		for offset := 0; offset < size; offset++ {
			for _, d := range []int64{0, 1, 9, 10, 11, 19, 20, 21, int64(size)*10 - 1, int64(size) * 10, int64(size)*10 + 1, int64(size)*30 + 7} {
				if !gzvWindowStep(t, size, 10, 1000, time.Duration(1000+d), offset) {
					return
				}
			}
		}
	}
	// 3. histories
	gapSet := []int64{0, 1, 9, 10, 11, 25}
	for size := 1; size <= 4; size++ {
		long := []int64{int64(size)*10 - 1, int64(size) * 10, int64(size)*10 + 1, int64(size)*20 + 5, int64(size)*50 + 3}
		all := append(append([]int64(nil), gapSet...), long...)
		for _, ic := range []bool{false, true} {
			// all gap sequences of length 4 over the gap alphabet, then the same again (so that buckets wrap)
			var rec func(cur []int64)
			ok := true
			rec = func(cur []int64) {
				if !ok {
					return
				}
				if len(cur) == 4 {
					seq := append(append([]int64(nil), cur...), cur...)
					ok = gzvWindowHistory(t, size, ic, seq)
					return
				}
				for _, g := range all {
					rec(append(cur, g))
				}
			}
			rec(nil)
			if !ok {
				return
			}
		}
	}
	_ = fmt.Sprint
}
