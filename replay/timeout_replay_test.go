package handler

// gzv replay driver for the REST timeout middleware (C04). Injected with `go test -overlay`; never part of /repo.
// Oracle = the property statement: the client sees either the handler's complete result (it finished in time) or only the
// timeout response — never a mixture, and nothing the work writes (or flushes) after the timeout reaches the client; the
// context the handler gets carries a deadline no later than now + timeout and no later than the caller's.
// Real time is involved (context.WithTimeout): the handler side is synchronised with channels, margins are wide.

import (
	"context"
	"net/http"
	"net/http/httptest"
	"strings"
	"sync"
	"testing"
	"time"

	"github.com/zeromicro/go-zero/core/logx"
)

// a recorder that can be read while the handler goroutine may still write to it
type gzvRecorder struct {
	mu   sync.Mutex
	code int
	body strings.Builder
	hdr  http.Header
}

func (r *gzvRecorder) Header() http.Header { return r.hdr }
func (r *gzvRecorder) WriteHeader(c int) {
	r.mu.Lock()
	if r.code == 0 {
		r.code = c
	}
	r.mu.Unlock()
}
func (r *gzvRecorder) Write(p []byte) (int, error) {
	r.mu.Lock()
	if r.code == 0 {
		r.code = 200
	}
	r.body.Write(p)
	r.mu.Unlock()
	return len(p), nil
}
func (r *gzvRecorder) Flush() {}
func (r *gzvRecorder) snapshot() (int, string) {
	r.mu.Lock()
	defer r.mu.Unlock()
	return r.code, r.body.String()
}

func TestGzvReplayTimeout(t *testing.T) {
	logx.Disable()
	const timeout = 40 * time.Millisecond
	for _, behaviour := range []string{"fast", "slow-chunks", "slow-flush", "ignore-context", "write-after-return"} {
		for _, callerDeadline := range []time.Duration{0, 10 * time.Millisecond, time.Hour} {
			release := make(chan struct{})
			finished := make(chan struct{})
			var sawDeadline time.Time
			var hadDeadline bool
			start := time.Now()
			h := TimeoutHandler(timeout)(http.HandlerFunc(func(w http.ResponseWriter, r *http.Request) {
				defer close(finished)
				sawDeadline, hadDeadline = r.Context().Deadline()
				_, _ = w.Write([]byte("part1-"))
				if behaviour != "fast" {
					<-release // the test releases the handler only after the middleware has answered
				}
				w.Header().Set("X-Late", "1")
				w.WriteHeader(http.StatusAccepted)
				_, _ = w.Write([]byte("part2"))
				if behaviour == "slow-flush" {
					if f, ok := w.(http.Flusher); ok {
						f.Flush()
					}
				}
			}))
			req := httptest.NewRequest(http.MethodGet, "http://localhost/x", http.NoBody)
			if callerDeadline > 0 {
				ctx, cancel := context.WithTimeout(req.Context(), callerDeadline)
				defer cancel()
				req = req.WithContext(ctx)
			}
			rec := &gzvRecorder{hdr: http.Header{}}
			h.ServeHTTP(rec, req)
			answered := time.Since(start)
			code1, body1 := rec.snapshot()
			if behaviour != "fast" {
				close(release)
			}
			select {
			case <-finished:
			case <-time.After(2 * time.Second):
				t.Fatalf("handler never finished")
			}
			time.Sleep(5 * time.Millisecond)
			code2, body2 := rec.snapshot()
			in := "handler=" + behaviour + " timeout=40ms caller deadline=" + callerDeadline.String()
			effective := timeout
			if callerDeadline > 0 && callerDeadline < timeout {
				effective = callerDeadline
			}
			if !hadDeadline || sawDeadline.After(start.Add(effective+30*time.Millisecond)) {
				t.Errorf("GZV-REPRODUCED timeout middleware %s: the handler's context deadline is %v after the request started (present=%v), expected at most %v", in, sawDeadline.Sub(start), hadDeadline, effective)
				return
			}
			if behaviour == "fast" {
				if code1 != http.StatusOK || body1 != "part1-part2" {
					t.Errorf("GZV-REPRODUCED timeout middleware %s: client got status %d body %q, expected the handler's complete result 200 %q", in, code1, body1, "part1-part2")
					return
				}
				continue
			}
			if answered > effective+500*time.Millisecond {
				t.Errorf("GZV-REPRODUCED timeout middleware %s: answered after %v, it must not wait for work that ignores the deadline", in, answered)
				return
			}
			if code1 != http.StatusServiceUnavailable && code1 != 499 {
				t.Errorf("GZV-REPRODUCED timeout middleware %s: client got status %d body %q at the deadline, expected the timeout response only", in, code1, body1)
				return
			}
			if strings.Contains(body1, "part") || code2 != code1 || body2 != body1 {
				t.Errorf("GZV-REPRODUCED timeout middleware %s: client got %d %q at the deadline and %d %q after the handler finished: output of the timed-out handler reached the client", in, code1, body1, code2, body2)
				return
			}
		}
	}
}
