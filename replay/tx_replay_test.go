package sqlx

// gzv replay driver for SQL transactions (C14). Injected with `go test -overlay`; never part of /repo.
// Oracle = the property statement: a transaction that was begun ends exactly once — committed iff the body returned nil
// without panicking, rolled back otherwise (a panic is turned into an error); a failed begin runs nothing; the error
// reports what happened (commit error on a failed commit, the body's error on rollback, never nil after a rollback).
// The enumeration over the fault points is complete: begin {ok,fail} x body {ok,error,panic} x commit {ok,fail} x
// rollback {ok,fail}, through transactOnConn, transact and the public commonSqlConn entry points.

import (
	"context"
	"database/sql"
	"database/sql/driver"
	"errors"
	"fmt"
	"testing"

	"github.com/zeromicro/go-zero/core/breaker"
)

type gzvTx struct {
	Session
	commits, rollbacks   int
	commitErr, rollbErr  error
	order                []string
}

func (t *gzvTx) Commit() error   { t.commits++; t.order = append(t.order, "commit"); return t.commitErr }
func (t *gzvTx) Rollback() error { t.rollbacks++; t.order = append(t.order, "rollback"); return t.rollbErr }

func TestGzvReplayTx(t *testing.T) {
	errBegin, errBody, errCommit, errRollback := errors.New("begin failed"), errors.New("body failed"), errors.New("commit failed"), errors.New("rollback failed")
	type entry struct {
		name string
		run  func(b beginnable, fn func(context.Context, Session) error) error
	}
	conn := &commonSqlConn{
		connProv: func() (*sql.DB, error) { return nil, nil },
		onError:  func(context.Context, error) {},
		beginTx:  nil,
		brk:      breaker.NopBreaker(),
		accept:   func(error) bool { return true },
	}
	entries := []entry{
		{"transactOnConn", func(b beginnable, fn func(context.Context, Session) error) error {
			return transactOnConn(context.Background(), nil, b, fn)
		}},
		{"transact", func(b beginnable, fn func(context.Context, Session) error) error {
			return transact(context.Background(), conn, b, fn)
		}},
		{"commonSqlConn.TransactCtx", func(b beginnable, fn func(context.Context, Session) error) error {
			conn.beginTx = b
			return conn.TransactCtx(context.Background(), fn)
		}},
		{"commonSqlConn.Transact", func(b beginnable, fn func(context.Context, Session) error) error {
			conn.beginTx = b
			return conn.Transact(func(s Session) error { return fn(context.Background(), s) })
		}},
	}
	for _, e := range entries {
		for _, beginFails := range []bool{false, true} {
			for _, body := range []string{"ok", "error", "error:notfound", "error:norows", "error:canceled", "error:txdone", "error:badconn", "panic"} {
				for _, cErr := range []error{nil, errCommit, sql.ErrTxDone, driver.ErrBadConn, ErrNotFound} {
					for _, rErr := range []error{nil, errRollback, sql.ErrTxDone} {
						tx := &gzvTx{commitErr: cErr, rollbErr: rErr}
						commitFails, rollbackFails := cErr != nil, rErr != nil
						errCommit, errRollback := cErr, rErr
						errBody := map[string]error{"error": errBody, "error:notfound": ErrNotFound, "error:norows": sql.ErrNoRows, "error:canceled": context.Canceled, "error:txdone": sql.ErrTxDone, "error:badconn": driver.ErrBadConn}[body]
						_, _ = errCommit, errRollback
						begins, bodies := 0, 0
						b := func(*sql.DB) (trans, error) {
							begins++
							if beginFails {
								return nil, errBegin
							}
							return tx, nil
						}
						fn := func(context.Context, Session) error {
							bodies++
							switch {
							case body == "panic":
								panic("body panicked")
							case body != "ok":
								return errBody
							}
							return nil
						}
						var err error
						escaped := func() (p any) {
							defer func() { p = recover() }()
							err = e.run(b, fn)
							return nil
						}()
						in := fmt.Sprintf("%s: begin fails=%v body=%s commit error=%v rollback error=%v", e.name, beginFails, body, cErr, rErr)
						fail := func(msg string) {
							t.Errorf("GZV-REPRODUCED %s: %s (begins=%d bodies=%d commits=%d rollbacks=%d err=%v)", in, msg, begins, bodies, tx.commits, tx.rollbacks, err)
						}
						switch {
						case escaped != nil:
							fail(fmt.Sprintf("panic escaped: %v", escaped))
							return
						case begins != 1:
							fail("begin not called exactly once")
							return
						case beginFails:
							if bodies != 0 || tx.commits+tx.rollbacks != 0 || !errors.Is(err, errBegin) {
								fail("after a failed begin nothing may run and the begin error is returned")
								return
							}
							continue
						case bodies != 1:
							fail("body not run exactly once")
							return
						case tx.commits+tx.rollbacks != 1:
							fail("transaction not ended exactly once")
							return
						case (tx.commits == 1) != (body == "ok"):
							fail("commit iff the body returned nil without panicking")
							return
						}
						if body == "ok" {
							if commitFails != (err != nil) || (commitFails && !errors.Is(err, errCommit)) {
								fail("the result must be the commit's")
								return
							}
						} else {
							if err == nil {
								fail("a rolled back transaction must report an error")
								return
							}
							if body != "panic" && !rollbackFails && !errors.Is(err, errBody) {
								fail("the body's error must be reported")
								return
							}
							if rollbackFails && !errors.Is(err, errRollback) {
								fail("a failed rollback must be reported")
								return
							}
						}
					}
				}
			}
		}
	}
}
