#!/usr/bin/env python3
# Generates MANIFEST.json from manifest_src.json (per-property texts) so that the file stays schema-valid.
import json, subprocess
src = json.load(open('/verif/manifest_src.json'))
props = [json.loads(l)['id'] for l in open('/verif/properties.jsonl')]
checks = []
for pid in props:
    c = src['claimed'].get(pid)
    if not c:
        continue
    checks.append({
        "property_id": pid,
        "quick_cmd": f"/verif/bin/gzv check -property {pid} -tier quick",
        "thorough_cmd": f"/verif/bin/gzv check -property {pid} -tier thorough",
        "evidence_file": f"/verif/evidence/{pid}.json",
        "replay_cmd_template": "/verif/bin/gzv replay {path}",
        "engine": "gzv",
        "level_claimed": {"category": "proof", "text": c['text'], "design_ref": c.get('design_ref', 'DESIGN.md §5 ' + pid)},
        "level_note": c['note'],
        "technique": c.get('technique', "contract-based deductive verification: VCs generated from the real Go AST (and Lua scripts) against //@ contracts, discharged by z3/cvc5"),
    })
na = [{"property_id": pid, "reason": src['not_applicable'][pid]} for pid in props if pid not in src['claimed']]
m = {
    "version": 1,
    "setup_cmd": "cd /verif/engine && GOFLAGS=-mod=mod GOPROXY=off GOSUMDB=off GOTOOLCHAIN=local go build -o /verif/bin/gzv ./cmd/gzv",
    "hooks": {
        "guard": "verif",
        "enable": "go build tag `verif`: comment-only contract files zz_contracts_verif.go (//go:build verif) next to the code they specify; gzv loads packages with -tags=verif",
        "baseline_off_cmd": "for m in $(cat /w/out/gomods.txt); do MF=$(cd /repo/$m && . /w/out/goenv.sh && gomodflag); (cd /repo/$m && go test $MF -json -vet=off -count=1 -timeout 25m ./...); done",
        "source_commits": subprocess.run(["git","-C","/repo","log","--grep","^verif:","--format=%h"],capture_output=True,text=True).stdout.split(),
        "add_only": True,
    },
    "engines": [{"name": "gzv", "path": "/verif/engine", "serves_properties": [c['property_id'] for c in checks],
                 "kind_free_text": "own VC generator: symbolic execution of go/ast+go/types function bodies against Gobra-style //@ contracts; SMT portfolio z3-new/z3/cvc5"}],
    "checks": checks,
    "not_applicable": na,
    "notes": src.get('notes', ''),
}
json.dump(m, open('/verif/MANIFEST.json', 'w'), indent=1)
print("claimed:", [c['property_id'] for c in checks])
